"""C07 (Rust) and C08 (.NET): generated sources against the image computed from the metamodel."""
import json
import os
import shutil
import subprocess

from . import common

CFG = "INIT Init\nNEXT Next\nCHECK_DEADLOCK FALSE\n"


def generate(plugin, work, model=None):
    out, test = os.path.join(work, plugin + "-out"), os.path.join(work, plugin + "-test")
    os.makedirs(out)
    shutil.copytree(os.path.join(common.REPO, "tests", "rust"), test, ignore=shutil.ignore_patterns("target"))
    env = dict(os.environ, PYTHONPATH=common.REPO, PYTHONHASHSEED=str(common.seed()))
    cmd = [common.PY, "-m", "generator", "--plugin", plugin, "--output-dir", out, "--test-dir", test]
    if model:
        cmd += ["--model", model]
    p = subprocess.run(cmd, cwd=common.REPO, env=env, stdout=subprocess.PIPE, stderr=subprocess.STDOUT, timeout=900)
    return p.returncode, p.stdout.decode()[-1500:], out


def rust_image(lib_rs, work, tag):
    tmp = os.path.join(work, tag + ".rs")
    shutil.copy(lib_rs, tmp)
    p = subprocess.run(["rustfmt", "--edition", "2021", tmp], stdout=subprocess.PIPE, stderr=subprocess.PIPE)
    parses = p.returncode == 0
    from . import extract_rust
    img = extract_rust.parse(open(tmp if parses else lib_rs, encoding="utf-8").read())
    ip = os.path.join(work, tag + "-image.json")
    json.dump(img, open(ip, "w"))
    return ip, parses, p.stderr.decode()[-800:], img


def judge(module, envvar, ip, model):
    rc, out = common.run_tlc(module, CFG, env={"LSP_MODEL": model, envvar: ip}, heap="3g")
    obl = list(common.tagged_lines(out, "@O"))
    if not obl or "No error has been found" not in out:
        raise common.MachineryError(module + ".tla failed:\n" + out[-3000:])
    return list(common.tagged_lines(out, "@F")), list(common.tagged_lines(out, "@W")), obl[0]


def check_c07(tier, model=None):
    rep = common.Reporter("C07", tier, "model_checking")
    mpath = model or os.path.join(common.REPO, "generator", "lsp.json")
    work = common.scratch("c07-")
    try:
        rc, log, out = generate("rust", work, model)
        if rc != 0:
            rep.violation({"clause": "R_plugin_failed"}, {"output": log})
            sources = []
        else:
            sources = [("generated", os.path.join(out, "lsprotocol", "src", "lib.rs"))]
        if model is None:
            sources.append(("committed", os.path.join(common.REPO, "packages", "rust", "lsprotocol", "src", "lib.rs")))
        obl, warns, nitems = {}, [], 0
        for tag, path in sources:
            ip, parses, err, img = rust_image(path, work, tag)
            if not parses:
                rep.violation({"clause": "R_does_not_parse", "source": tag}, {"rustfmt": err})
            fails, w, obl = judge("RustImage", "RUST_IMAGE", ip, mpath)
            warns = w
            nitems = len(img["order"])
            for f in fails:
                rep.violation({"clause": f["c"], "pos": f["pos"]}, {"source": tag, "failure": f})
    finally:
        shutil.rmtree(work, ignore_errors=True)
    rep.coverage.update({"states": 2, "transitions": 1, "traces_validated_against_impl": len(sources), "image_obligations": obl, "items_extracted": nitems,
                         "observations_ungated_item_mentions_gated_type": [w["pos"] for w in warns], "exhaustive": True,
                         "rule": "the rust plugin is run from the working tree; the emitted lib.rs (and the committed copy) is rustfmt-parsed, projected to items / fields / type terms / serde names by harness/extract_rust.py and compared by RustImage.tla with the image computed from the metamodel: every structure, enumeration, alias, message, method-enum variant and feature gate",
                         "samples": [{"struct Position expected fields": ["line: u32", "character: u32"]}, {"sources": [t for t, _ in sources]}]})
    rep.assumptions = ["harness/extract_rust.py tokenises the generated Rust subset correctly; serde camelCase renaming and the Request->Response struct name derivation are part of the projection",
                       "no Rust dependencies are available offline: the crate is not compiled"]
    return rep


def check_c08(tier, model=None):
    rep = common.Reporter("C08", tier, "model_checking")
    mpath = model or os.path.join(common.REPO, "generator", "lsp.json")
    work = common.scratch("c08-")
    obl, nfiles = {}, 0
    try:
        rc, log, out = generate("dotnet", work, model)
        if rc != 0:
            rep.violation({"clause": "D_plugin_failed"}, {"output": log})
        else:
            from . import extract_cs
            img = extract_cs.parse_dir(os.path.join(out, "lsprotocol"))
            doc = json.load(open(mpath))
            img["private_names"] = [s["name"] for s in doc.get("structures", []) if s["name"].startswith("_")]
            nfiles = img["files"]
            ip = os.path.join(work, "cs-image.json")
            json.dump(img, open(ip, "w"))
            fails, _, obl = judge("DotnetImage", "CS_IMAGE", ip, mpath)
            for f in fails:
                rep.violation({"clause": f["c"], "pos": f["pos"]}, {"failure": f})
            for d in img.get("duplicates", []):
                rep.violation({"clause": "D_duplicate_definition", "pos": d}, {"name": d})
    finally:
        shutil.rmtree(work, ignore_errors=True)
    rep.coverage.update({"states": 2, "transitions": 1, "traces_validated_against_impl": 1, "image_obligations": obl, "files_parsed": nfiles, "exhaustive": True,
                         "rule": "the dotnet plugin is run from the working tree; every .cs file is projected (records, DataMember names, parsed type terms, nullability, NullValueHandling.Ignore, JsonConstructor assignments, enum members, LSPRequest/LSPResponse/Direction attributes, the LSPMethods table) and compared by DotnetImage.tla with the image computed from the metamodel",
                         "samples": [{"record Position expected members": ["line: long", "character: long"]}]})
    rep.assumptions = ["harness/extract_cs.py reads the generator's regular C# output line by line (one attribute per line, one property per line)",
                       "no .NET SDK offline: sources are not compiled; nullable / null-ignoring are not asserted for ImmutableArray / ImmutableDictionary members; internal structures (name starting with '_') need no class of their own"]
    return rep
