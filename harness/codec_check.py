"""Shared pipeline of the codec properties (C01 C02 C03 C10 C11 C12 C13 C14 C15).

    TLC (Codec.tla)  --states-->  driver (real converter)  --sessions-->  TLC (CodecTrace.tla)

Roots are sharded over NSHARDS independent pipelines that run in parallel.  The result (TLC
statistics, every failing event with its session) is cached under /verif/.cache keyed by the
content of every file the run depends on, so the per-property commands share one run.
"""
import concurrent.futures as cf
import json
import os
import shutil
import subprocess
import sys
import time

from . import common
from .common import MachineryError

GEN_INVARIANTS = ["GenShape", "GenValid", "GenStrict", "NormalIdem", "DeviationIsInvalid", "TolerantStaysValid", "EmitState"]

# A tier is a list of passes (roots, K, KV, shards):  K = refinement depth, variants are taken
# from states of depth < KV.  All shards of all passes run in one pool.
TIERS = {
    "quick": [dict(roots="all", K=1, KV=1, KU=2, shards=10),
              dict(roots="response", K=2, KV=0, KU=3, shards=8),
              dict(roots="unionholder", K=2, KV=0, KU=3, shards=10),
              dict(roots="arrayunion", K=3, KV=0, KU=0, shards=6, KL=4),
              # every value within one change of the MAXIMAL instance (all properties set, budget 2)
              dict(roots="all", K=1, KV=1, KU=1, shards=10, frommax=True, KL=1),
              dict(roots="alias", K=3, KV=0, KU=4, shards=2),
              # the union holders and all deviations once more in a process with another hash seed (set / dict iteration
              # orders differ) and under python -O (assert statements and __debug__ blocks removed)
              dict(roots="unionholder", K=1, KV=0, KU=0, shards=4, cfg="default@1@O"),
              dict(roots="structure", K=0, KV=1, KU=0, shards=4, cfg="after_generator@2@O"),
              # ... through a converter the application supplied (all cattrs defaults), with warnings turned into errors
              dict(roots="all", K=0, KV=1, KU=0, shards=6, cfg="user@3@W"),
              # a pristine converter next to a converter the application made lenient, which sees every input first
              dict(roots="all", K=0, KV=1, KU=0, shards=6, cfg="after_lenient")],
    "thorough": [dict(roots="all", K=2, KV=2, KU=3, shards=32),
                 dict(roots="response", K=3, KV=0, KU=3, shards=24),
                 dict(roots="alias", K=4, KV=0, KU=4, shards=4),
                 dict(roots="unionholder", K=3, KV=0, KU=0, shards=16),
                 dict(roots="all", K=2, KV=1, KU=2, shards=32, frommax=True, KL=1),
                 dict(roots="arrayunion", K=3, KV=0, KU=0, shards=8, KL=4),
                 # the same universe through differently configured converters (C19's configurations, judged clause by clause)
                 dict(roots="all", K=1, KV=1, KU=2, shards=16, cfg="nodetail"),
                 dict(roots="all", K=1, KV=1, KU=2, shards=16, cfg="second"),
                 dict(roots="all", K=1, KV=1, KU=2, shards=16, cfg="default@1@O"),
                 dict(roots="all", K=1, KV=1, KU=2, shards=16, cfg="user@3@OW"),
                 dict(roots="all", K=1, KV=1, KU=2, shards=16, cfg="after_lenient"),
                 dict(roots="unionholder", K=2, KV=0, KU=0, shards=16, cfg="default@2"),
                 dict(roots="unionholder", K=2, KV=0, KU=0, shards=16, cfg="default@3"),
                 dict(roots="all", K=8, KV=0, KU=0, shards=16, simulate=dict(num=40, depth=8))],
}


def gen_cfg(K, KV, nshards, shard, roots="all", emit=True, KU=0, names=(), frommax=False, KL=0):
    return ("CONSTANTS K = %d NShards = %d Shard = %d Emit = %s RootSel = \"%s\" KV = %d KU = %d RootNames = {%s} FromMax = %s KL = %d\n"
            "INIT Init\nNEXT Next\nVIEW View\n%s\nCHECK_DEADLOCK FALSE\n"
            % (K, nshards, shard, "TRUE" if emit else "FALSE", roots, KV, KU, ", ".join('"%s"' % n for n in names), "TRUE" if frommax else "FALSE", KL,
               "\n".join("INVARIANT " + i for i in GEN_INVARIANTS)))


def trace_cfg(nsess, nevents):
    return ("CONSTANTS NSess = %d NEvents = %d\nINIT TInit\nNEXT Step\nPOSTCONDITION AllConsumed\nCHECK_DEADLOCK FALSE\n"
            % (nsess, nevents))


def pkg_env(pkg_path):
    e = dict(os.environ)
    e["PYTHONPATH"] = pkg_path + os.pathsep + common.VERIF
    e["PYTHONHASHSEED"] = "0"
    return e


def one_shard(args):
    (K, KV, nshards, shard, roots, model, pkg_path, work) = args[:8]
    KU = args[8] if len(args) > 8 else 0
    names = args[9] if len(args) > 9 else ()
    sim = args[10] if len(args) > 10 else None
    conv_cfg = args[11] if len(args) > 11 else "default"
    frommax = args[12] if len(args) > 12 else False
    KL = args[13] if len(args) > 13 else 0
    t0 = time.time()
    states = os.path.join(work, "states-%d.txt" % shard)
    trace = os.path.join(work, "trace-%d.json" % shard)
    env = {"LSP_MODEL": model, "ALIAS_TABLE": os.path.join(os.path.dirname(work), "aliases.json")}
    extra = ()
    if sim:
        # random walks of the value graph (TLC -simulate): long refinement chains beyond the BFS depth;
        # TLC evaluates the invariants (and so prints) every successor of every visited state
        extra = ("-simulate", "num=%d" % sim["num"], "-depth", str(sim["depth"]), "-seed", str(common.seed() * 1000 + shard + 1))
    rc, _ = common.run_tlc("Codec", gen_cfg(K, KV, nshards, shard, roots, KU=KU, names=names, frommax=frommax, KL=KL), env=env, out_path=states, heap="2g", extra=extra)
    head = open(states, encoding="utf-8", errors="replace").read()
    gen_text = "\n".join(l for l in head.splitlines() if not l.startswith('"@S'))
    if sim:
        import re
        m = re.search(r"The number of states generated: (\d+)", gen_text)
        if "Error:" in gen_text or not m:
            raise MachineryError("Codec.tla simulation failed in shard %d:\n%s" % (shard, gen_text[-3000:]))
        sg = sd = int(m.group(1))
    else:
        if "Model checking completed. No error has been found." not in gen_text:
            raise MachineryError("Codec.tla generation failed in shard %d:\n%s" % (shard, gen_text[-3000:]))
        sg, sd = common.tlc_stats(gen_text)
    t1 = time.time()
    denv = pkg_env(pkg_path)
    if conv_cfg.startswith("after_generator"):
        denv["PYTHONPATH"] = denv["PYTHONPATH"] + os.pathsep + common.REPO
        denv["VERIF_LSP_JSON"] = os.path.join(common.REPO, "generator", "lsp.json")
    parts = conv_cfg.split("@")                                    # "<configuration>[@<PYTHONHASHSEED>[@O]]"
    denv["VERIF_CONV_CFG"] = parts[0]
    if len(parts) > 1 and parts[1]:
        denv["PYTHONHASHSEED"] = parts[1]
    if len(parts) > 2 and "O" in parts[2]:
        denv["PYTHONOPTIMIZE"] = "1"                                # python -O: assert statements and __debug__ blocks are gone
    if len(parts) > 2 and "W" in parts[2]:
        denv["PYTHONWARNINGS"] = "error"                            # python -W error: every warning is an exception
    p = subprocess.run([common.PY, "-m", "harness.codec_driver", states, trace, model], cwd=common.VERIF,
                       env=denv, stdout=subprocess.PIPE, stderr=subprocess.PIPE)
    if p.returncode != 0:
        raise MachineryError("driver failed in shard %d:\n%s" % (shard, p.stderr.decode()[-3000:]))
    info = json.loads(p.stdout.decode().strip().splitlines()[-1])
    os.unlink(states)
    t2 = time.time()
    fails = []
    samples = []
    nsess = nev = 0
    for ch in info["chunks"]:
        nsess += ch["sessions"]
        doc = json.load(open(ch["path"], encoding="utf-8"))
        events = sum(len(s_["ev"]) for s_ in doc["sessions"])
        nev += events
        env2 = {"LSP_MODEL": model, "CODEC_TRACE": ch["path"]}
        rc, out = common.run_tlc("CodecTrace", trace_cfg(ch["sessions"], events), env=env2, heap="3g")
        if "Model checking completed. No error has been found." not in out or '"@DONE' not in out:
            raise MachineryError("CodecTrace.tla did not accept trace chunk %s:\n%s" % (ch["path"], out[-3000:]))
        fl = list(common.tagged_lines(out, "@F"))
        if fl:
            sess = {s_["sid"]: s_ for s_ in doc["sessions"]}
            for f in fl:
                fails.append({"session": sess[f["sid"]], "l": f["l"], "c": sorted(f["c"]), "pos": sorted(f["pos"]) if f["pos"] else []})
        if shard == 0 and not samples:
            seen = set()
            for s_ in doc["sessions"]:
                if s_["sk"] not in seen and len(json.dumps(s_)) < 4000:
                    seen.add(s_["sk"])
                    samples.append(s_)
        os.unlink(ch["path"])
    return {"shard": shard, "by_kind": info["by_kind"], "generated": sg, "distinct": sd, "sessions": nsess, "events": nev,
            "fails": fails, "samples": samples, "t": [round(t1 - t0, 1), round(t2 - t1, 1), round(time.time() - t2, 1)]}


def alias_table(model, path):
    """Spelling variants of every property name (snake_case, lower case, keyword-escaped) as a table
    for Codec.tla's AddNearMissKey action."""
    import keyword
    import re
    from .codec_driver import norm_table
    out = {}
    for name in norm_table(model):
        snake = re.sub(r"([a-z0-9])([A-Z])", r"\1_\2", re.sub(r"(.)([A-Z][a-z]+)", r"\1_\2", name)).lower()
        cands = []
        for c in (snake, name.lower(), (name + "_") if keyword.iskeyword(name) else name):
            if c != name and c not in cands:
                cands.append(c)
        if cands:
            out[name] = cands
    # custom values of open string enumerations that differ from a declared value only in letter case
    for e in json.load(open(model, encoding="utf-8"))["enumerations"]:
        if e["type"]["name"] == "string":
            declared = [v["value"] for v in e["values"]]
            near = []
            for v in declared[:2]:
                for c in (v.upper(), v.capitalize(), v.swapcase()):
                    if c not in declared and c not in near:
                        near.append(c)
            if near:
                out["@enum:" + e["name"]] = near[:2]
    json.dump(out, open(path, "w"))
    return path


def dep_files(pkg_path, model):
    files = common.tree_files(pkg_path, (".py",)) + [model]
    files += common.tree_files(common.SPEC, (".tla",)) + common.tree_files(os.path.join(common.VERIF, "harness"), (".py",))
    return files


def run(tier, model=None, pkg_path=None, use_cache=True, passes=None):
    model = model or os.path.join(common.REPO, "generator", "lsp.json")
    pkg_path = pkg_path or os.path.join(common.REPO, "packages", "python")
    passes = passes or TIERS[tier]
    key = common.file_hash(dep_files(pkg_path, model))[:24] + "-" + common.hashlib.sha1(json.dumps(passes, sort_keys=True).encode()).hexdigest()[:10]
    cpath = os.path.join(common.CACHE, "codec-" + key + ".json")
    if use_cache and os.path.exists(cpath):
        try:
            res = json.load(open(cpath, encoding="utf-8"))
            res["cached"] = True
            return res
        except Exception:
            pass
    work = common.scratch("codec-")
    t0 = time.time()
    try:
        jobs = []
        alias_table(model, os.path.join(work, "aliases.json"))
        for pi, ps in enumerate(passes):
            d = os.path.join(work, "p%d" % pi)
            os.makedirs(d)
            jobs += [(ps["K"], ps["KV"], ps["shards"], s, ps["roots"], model, pkg_path, d, ps.get("KU", 0), tuple(ps.get("names", ())), ps.get("simulate"), ps.get("cfg", "default"), ps.get("frommax", False), ps.get("KL", 0)) for s in range(ps["shards"])]
        with cf.ThreadPoolExecutor(max_workers=common.NCPU) as ex:
            parts = list(ex.map(one_shard, jobs))
    finally:
        shutil.rmtree(work, ignore_errors=True)
    res = {
        "tier": tier, "passes": passes,
        "states": sum(p["distinct"] for p in parts),
        "transitions": sum(p["generated"] for p in parts),
        "sessions": sum(p["sessions"] for p in parts),
        "events": sum(p["events"] for p in parts),
        "by_kind": {k: sum(p["by_kind"].get(k, 0) for p in parts) for k in sorted({k for p in parts for k in p["by_kind"]})},
        "fails": [f for p in parts for f in p["fails"]],
        "samples": [s for p in parts for s in p["samples"]],
        "wall_s": round(time.time() - t0, 1),
        "phase_s": [max(p["t"][i] for p in parts) for i in range(3)],
        "cached": False,
    }
    os.makedirs(common.CACHE, exist_ok=True)
    tmp = cpath + ".tmp%d" % os.getpid()
    with open(tmp, "w", encoding="utf-8") as f:
        json.dump(res, f, ensure_ascii=False)
    os.replace(tmp, cpath)
    return res


if __name__ == "__main__":
    r = run(sys.argv[1] if len(sys.argv) > 1 else "quick", use_cache=False)
    print(json.dumps({k: v for k, v in r.items() if k not in ("fails", "samples")}))
    print(len(r["fails"]), "failing events")
    import collections
    c = collections.Counter()
    for f in r["fails"]:
        s = f["session"]
        ev = s["ev"][f["l"] - 1]
        c[(s["sk"], tuple(f["c"]), tuple(f["pos"][:2]) or (s["root"]["kind"] + ":" + s["root"]["name"] + "." + s["var"].get("name", ""),), ev.get("exc", ""), ev.get("pos", ""))] += 1
    for k, v in sorted(c.items()):
        print(v, k)
