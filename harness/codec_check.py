"""Shared pipeline of the codec properties (C01 C02 C03 C10 C11 C12 C13 C14 C15).

    TLC (Codec.tla)  --states-->  driver (real converter)  --sessions-->  TLC (CodecTrace.tla)

Roots are sharded over NSHARDS independent pipelines that run in parallel.  The result (TLC
statistics, every failing event with its session) is cached under /verif/.cache keyed by the
content of every file the run depends on, so the per-property commands share one run.
"""
import concurrent.futures as cf
import json
import os
import shutil
import subprocess
import sys
import time

from . import common
from .common import MachineryError

GEN_INVARIANTS = ["GenShape", "GenValid", "GenStrict", "NormalIdem", "DeviationIsInvalid", "TolerantStaysValid", "EmitState"]

TIERS = {
    # K: refinement depth, KV: variants taken from states of depth <= KV
    "quick": dict(K=1, KV=0, shards=16),
    "thorough": dict(K=2, KV=1, shards=32),
}


def gen_cfg(K, KV, nshards, shard, roots="all", emit=True):
    return ("CONSTANTS K = %d NShards = %d Shard = %d Emit = %s RootSel = \"%s\" KV = %d\n"
            "INIT Init\nNEXT Next\nVIEW View\n%s\nCHECK_DEADLOCK FALSE\n"
            % (K, nshards, shard, "TRUE" if emit else "FALSE", roots, KV,
               "\n".join("INVARIANT " + i for i in GEN_INVARIANTS)))


def trace_cfg(nsess, nevents):
    return ("CONSTANTS NSess = %d NEvents = %d\nINIT TInit\nNEXT Step\nPOSTCONDITION AllConsumed\nCHECK_DEADLOCK FALSE\n"
            % (nsess, nevents))


def pkg_env(pkg_path):
    e = dict(os.environ)
    e["PYTHONPATH"] = pkg_path + os.pathsep + common.VERIF
    e["PYTHONHASHSEED"] = "0"
    return e


def one_shard(args):
    (K, KV, nshards, shard, roots, model, pkg_path, work) = args
    t0 = time.time()
    states = os.path.join(work, "states-%d.txt" % shard)
    trace = os.path.join(work, "trace-%d.json" % shard)
    env = {"LSP_MODEL": model}
    rc, _ = common.run_tlc("Codec", gen_cfg(K, KV, nshards, shard, roots), env=env, out_path=states, heap="2g")
    head = open(states, encoding="utf-8", errors="replace").read()
    gen_text = "\n".join(l for l in head.splitlines() if not l.startswith('"@S'))
    if "Model checking completed. No error has been found." not in gen_text:
        raise MachineryError("Codec.tla generation failed in shard %d:\n%s" % (shard, gen_text[-3000:]))
    sg, sd = common.tlc_stats(gen_text)
    t1 = time.time()
    p = subprocess.run([common.PY, "-m", "harness.codec_driver", states, trace, model], cwd=common.VERIF,
                       env=pkg_env(pkg_path), stdout=subprocess.PIPE, stderr=subprocess.PIPE)
    if p.returncode != 0:
        raise MachineryError("driver failed in shard %d:\n%s" % (shard, p.stderr.decode()[-3000:]))
    counts = json.loads(p.stdout.decode().strip().splitlines()[-1])
    os.unlink(states)
    t2 = time.time()
    fails = []
    if counts["sessions"]:
        env2 = {"LSP_MODEL": model, "CODEC_TRACE": trace}
        rc, out = common.run_tlc("CodecTrace", trace_cfg(counts["sessions"], counts["events"]), env=env2, heap="3g")
        if "Model checking completed. No error has been found." not in out or '"@DONE' not in out:
            raise MachineryError("CodecTrace.tla did not accept the trace file of shard %d:\n%s" % (shard, out[-3000:]))
        fl = list(common.tagged_lines(out, "@F"))
        if fl:
            sess = {s["sid"]: s for s in json.load(open(trace, encoding="utf-8"))["sessions"]}
            for f in fl:
                fails.append({"session": sess[f["sid"]], "l": f["l"], "c": sorted(f["c"]), "pos": sorted(f["pos"]) if f["pos"] else []})
    samples = []
    if shard == 0 and counts["sessions"]:
        allsess = json.load(open(trace, encoding="utf-8"))["sessions"]
        samples = allsess[:2] + allsess[-1:]
    os.unlink(trace)
    return {"shard": shard, "generated": sg, "distinct": sd, "sessions": counts["sessions"], "events": counts["events"],
            "fails": fails, "samples": samples, "t": [round(t1 - t0, 1), round(t2 - t1, 1), round(time.time() - t2, 1)]}


def dep_files(pkg_path, model):
    files = common.tree_files(pkg_path, (".py",)) + [model]
    files += common.tree_files(common.SPEC, (".tla",)) + common.tree_files(os.path.join(common.VERIF, "harness"), (".py",))
    return files


def run(tier, model=None, pkg_path=None, roots="all", use_cache=True, params=None):
    model = model or os.path.join(common.REPO, "generator", "lsp.json")
    pkg_path = pkg_path or os.path.join(common.REPO, "packages", "python")
    prm = dict(TIERS[tier])
    if params:
        prm.update(params)
    key = common.file_hash(dep_files(pkg_path, model))[:24] + "-%s-%s-%d-%d" % (tier, roots, prm["K"], prm["KV"])
    cpath = os.path.join(common.CACHE, "codec-" + key + ".json")
    if use_cache and os.path.exists(cpath):
        try:
            res = json.load(open(cpath, encoding="utf-8"))
            res["cached"] = True
            return res
        except Exception:
            pass
    work = common.scratch("codec-")
    t0 = time.time()
    try:
        n = prm["shards"]
        jobs = [(prm["K"], prm["KV"], n, s, roots, model, pkg_path, work) for s in range(n)]
        with cf.ThreadPoolExecutor(max_workers=min(common.NCPU, n)) as ex:
            parts = list(ex.map(one_shard, jobs))
    finally:
        shutil.rmtree(work, ignore_errors=True)
    res = {
        "tier": tier, "K": prm["K"], "KV": prm["KV"], "roots": roots,
        "states": sum(p["distinct"] for p in parts),
        "transitions": sum(p["generated"] for p in parts),
        "sessions": sum(p["sessions"] for p in parts),
        "events": sum(p["events"] for p in parts),
        "fails": [f for p in parts for f in p["fails"]],
        "samples": [s for p in parts for s in p["samples"]],
        "wall_s": round(time.time() - t0, 1),
        "phase_s": [max(p["t"][i] for p in parts) for i in range(3)],
        "cached": False,
    }
    os.makedirs(common.CACHE, exist_ok=True)
    tmp = cpath + ".tmp%d" % os.getpid()
    with open(tmp, "w", encoding="utf-8") as f:
        json.dump(res, f, ensure_ascii=False)
    os.replace(tmp, cpath)
    return res


if __name__ == "__main__":
    r = run(sys.argv[1] if len(sys.argv) > 1 else "quick", use_cache=False)
    print(json.dumps({k: v for k, v in r.items() if k not in ("fails", "samples")}))
    import collections
    c = collections.Counter()
    for f in r["fails"]:
        s = f["session"]
        ev = s["ev"][f["l"] - 1]
        c[(s["sk"], tuple(f["c"]), tuple(f["pos"][:2]) or (s["root"]["kind"] + ":" + s["root"]["name"] + "." + s["var"].get("name", ""),), ev.get("exc", ""), ev.get("pos", ""))] += 1
    for k, v in sorted(c.items()):
        print(v, k)
