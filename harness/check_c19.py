"""C19: converters independent of creation order, count, configuration and threads.

TLC (ConverterInit.tla) enumerates the interleavings of concurrent first calls; every selected
schedule is forced on the real code in a fresh interpreter (harness/c19_child.py, sys.settrace
scheduler).  TLC (ConverterHistory.tla) enumerates creation histories; each is executed in a
fresh interpreter.  All recorded Create / Probe events are validated by ConverterHistory.tla
(one inferred memo function must explain every probe of every converter)."""
import concurrent.futures as cf
import json
import os
import shutil
import subprocess

from . import codec_check, common
from .pyside import decode


def ci_cfg(locked, emit, invariants, threads=2, view=True):
    th = ", ".join('"t%d"' % (i + 1) for i in range(threads))
    return ("CONSTANTS Threads = {%s} KItems = 2 NClasses = 2 Locked = %s EmitHist = %s\nINIT Init\nNEXT Next\n%s%s\nCHECK_DEADLOCK FALSE\n"
            % (th, "TRUE" if locked else "FALSE", "TRUE" if emit else "FALSE", "VIEW AbsView\n" if view else "",
               "\n".join("INVARIANT " + i for i in invariants)))


def design_level():
    """Spec-level results: the unlocked design violates NoError, the locked one satisfies everything."""
    inv = ["NoError", "HooksOnlyAfterResolved", "MutualExclusion"]
    rc, out_u = common.run_tlc("ConverterInit", ci_cfg(False, False, inv))
    rc, out_l = common.run_tlc("ConverterInit", ci_cfg(True, False, inv))
    rc, out_l3 = common.run_tlc("ConverterInit", ci_cfg(True, False, inv, threads=3), workers=4)
    live_cfg = ci_cfg(True, False, [], view=False).replace("INIT Init\nNEXT Next\n", "SPECIFICATION FairSpec\nPROPERTY AllDone\n")
    # liveness needs the history-free state space: drop svHist growth by checking on the abstract view is not possible
    # for temporal properties, so bound the history instead (it only grows to the schedule length)
    rc, out_live = common.run_tlc("ConverterInit", live_cfg, workers=4)
    if "Invariant NoError is violated" not in out_u:
        raise common.MachineryError("the unlocked design no longer yields the race counterexample (vacuity):\n" + out_u[-1500:])
    for o in (out_l, out_l3, out_live):
        if "No error has been found" not in o:
            raise common.MachineryError("the locked design fails at the specification level:\n" + o[-1500:])
    tl = tlaps_unbounded()
    return {"unlocked_design": "NoError violated (expected counterexample found)",
            "tlaps_locked_design_any_number_of_threads": tl,
            "locked_design_2_threads": dict(zip(("generated", "distinct"), common.tlc_stats(out_l))),
            "locked_design_3_threads": dict(zip(("generated", "distinct"), common.tlc_stats(out_l3))),
            "locked_liveness_AllDone_under_WF": "holds"}


def tlaps_unbounded():
    """ConverterInitProof.tla: NoError, HooksOnlyAfterResolved and pairwise mutual exclusion of the locked design for
    any set of threads, by an inductive invariant checked by tlapm (design level; does not bind the code)."""
    import re
    import shutil
    if not shutil.which("tlapm"):
        return {"ran": False}
    w = common.scratch("tlaps-")
    try:
        for f in ("ConverterInitCore.tla", "ConverterInitProof.tla"):
            shutil.copy(os.path.join(common.SPEC, f), w)
        pr = subprocess.run(["tlapm", "ConverterInitProof.tla"], cwd=w, stdout=subprocess.PIPE, stderr=subprocess.STDOUT, timeout=900)
        m = re.search(r"All (\d+) obligations? proved", pr.stdout.decode())
        if not m:
            raise common.MachineryError("TLAPS no longer proves the inductive invariant of the locked design:\n" + pr.stdout.decode()[-1500:])
        return {"ran": True, "all_proved": True, "obligations": int(m.group(1))}
    finally:
        shutil.rmtree(w, ignore_errors=True)


def schedules(threads=2):
    rc, out = common.run_tlc("ConverterInit", ci_cfg(False, True, ["EmitSchedule"], threads=threads, view=False), workers=1, heap="4g")
    if "No error has been found" not in out:
        raise common.MachineryError("schedule enumeration failed:\n" + out[-1500:])
    gen, distinct = common.tlc_stats(out)
    return list(common.tagged_lines(out, "@H")), gen, distinct


def sampled_schedules(threads, num):
    """Random maximal behaviours of the unlocked design for more threads (TLC -simulate)."""
    rc, out = common.run_tlc("ConverterInit", ci_cfg(False, True, ["EmitSchedule"], threads=threads, view=False), workers=1, heap="3g",
                             extra=("-simulate", "num=%d" % num, "-depth", "40", "-seed", str(common.seed() + 7)))
    if "Error:" in out:
        raise common.MachineryError("schedule sampling failed:\n" + out[-1500:])
    seen, res = set(), []
    for h in common.tagged_lines(out, "@H"):
        k = json.dumps([[x["t"], x["a"]] for x in h])
        if k not in seen:
            seen.add(k)
            res.append(h)
    return res


def tkey(step):
    return (step["t"], step["a"], json.dumps(step["pcs"], sort_keys=True), step["f"], step["v"])


def greedy_cover(scheds):
    todo = set()
    keys = []
    for s in scheds:
        ks = {tkey(x) for x in s}
        keys.append(ks)
        todo |= ks
    total = len(todo)
    chosen = []
    while todo:
        best = max(range(len(scheds)), key=lambda i: len(keys[i] & todo))
        if not keys[best] & todo:
            break
        chosen.append(best)
        todo -= keys[best]
    return chosen, total


def battery(work):
    """~200 inputs drawn from the C01 universe (TLC states of structure roots, incl. failing variants)."""
    states = os.path.join(work, "bat-states.txt")
    shard = common.seed() % 8
    common.run_tlc("Codec", codec_check.gen_cfg(1, 1, 8, shard, "structure"),
                   env={"LSP_MODEL": os.path.join(common.REPO, "generator", "lsp.json")}, out_path=states, heap="2g")
    items = []
    for st in common.tagged_lines(states, "@S", is_path=True):
        if st["root"]["kind"] == "structure":
            from .pyside import canon
            items.append({"cls": st["root"]["name"], "j": decode(canon(st["w"])), "vk": st["var"]["vk"]})
    os.unlink(states)
    if len(items) < 50:
        raise common.MachineryError("battery generation produced only %d inputs" % len(items))
    step = max(1, len(items) // 200)
    return items[::step][:220]


def battery_wide(work, tier):
    """Inputs for the single-converter runs of every configuration class: the part of the C01 universe in which
    hand-written hooks decide (responses with several array alternatives, K = 3; union-holding structures and all
    responses, K = 1), several thousand values."""
    from .pyside import canon
    items, seen = [], set()
    model = os.path.join(common.REPO, "generator", "lsp.json")
    for roots, K, nsh in (("arrayunion", 3, 1), ("unionholder", 1, 1), ("response", 1, 1)):
        states = os.path.join(work, "wide-%s.txt" % roots)
        common.run_tlc("Codec", codec_check.gen_cfg(K, 0, nsh, 0, roots), env={"LSP_MODEL": model, "ALIAS_TABLE": os.path.join(work, "none.json")}, out_path=states, heap="2g")
        for st in common.tagged_lines(states, "@S", is_path=True):
            r = st["root"]
            if r["kind"] not in ("structure", "response", "request", "notification"):
                continue
            j = decode(canon(st["w"]))
            k = json.dumps([r["kind"], r["name"], j], sort_keys=True)
            if k not in seen:
                seen.add(k)
                items.append({"kind": r["kind"], "cls": r["name"], "j": j, "vk": st["var"]["vk"]})
        os.unlink(states)
    cap = 3000 if tier == "quick" else 20000
    if len(items) > cap:
        step = len(items) / float(cap)
        items = [items[int(i * step)] for i in range(cap)]
    return items


def child(args):
    mode, payload, bpath, work, idx = args
    ipath = os.path.join(work, "in-%s-%d.json" % (mode, idx))
    if mode not in ("stress", "shared"):
        json.dump(payload, open(ipath, "w"))
    env = dict(os.environ, PYTHONPATH=os.path.join(common.REPO, "packages", "python") + os.pathsep + common.VERIF, PYTHONHASHSEED="0")
    p = subprocess.run([common.PY, "-m", "harness.c19_child", mode, ipath if mode not in ("stress", "shared") else str(payload), bpath],
                       cwd=common.VERIF, env=env, stdout=subprocess.PIPE, stderr=subprocess.PIPE, timeout=900)
    if p.returncode != 0:
        raise common.MachineryError("c19 child failed (%s %d):\n%s" % (mode, idx, p.stderr.decode()[-1500:]))
    out = json.loads(p.stdout.decode().strip().splitlines()[-1])
    out["mode"], out["input"] = mode, payload
    return out


def check(tier):
    rep = common.Reporter("C19", tier, "model_checking")
    design = design_level()
    scheds, gen, distinct = schedules(2)
    chosen, ntrans = greedy_cover(scheds)
    if tier == "quick":
        sel = [scheds[i] for i in chosen]
        extra = [s for i, s in enumerate(scheds) if i not in set(chosen)]
        import random
        random.Random(common.seed()).shuffle(extra)
        sel += extra[:max(0, 96 - len(sel))]
        hist_len, stress_runs = 3, 4
    else:
        sel = list(scheds)
        hist_len, stress_runs = 4, 32
        sel += sampled_schedules(3, 150)[:300]
    rc, hout = common.run_tlc("ConverterHistory", "CONSTANTS MaxLen = %d NRuns = 0 NEvents = 0\nINIT HInit\nNEXT HNext\nINVARIANT EmitHistory\nCHECK_DEADLOCK FALSE\n" % hist_len)
    hists = list(common.tagged_lines(hout, "@H"))
    for shorter in range(1, hist_len):
        rc, h2 = common.run_tlc("ConverterHistory", "CONSTANTS MaxLen = %d NRuns = 0 NEvents = 0\nINIT HInit\nNEXT HNext\nINVARIANT EmitHistory\nCHECK_DEADLOCK FALSE\n" % shorter)
        hists += list(common.tagged_lines(h2, "@H"))
    if tier == "thorough":
        import random
        long_ = [h for h in hists if len(h) == hist_len]
        random.Random(common.seed() + 3).shuffle(long_)
        hists = [h for h in hists if len(h) < hist_len] + long_[:400]      # every history up to length 3, a sample of length 4
    if not hists or not sel:
        raise common.MachineryError("no schedules / histories were generated")
    work = common.scratch("c19-")
    try:
        bat = battery(work)
        bpath = os.path.join(work, "battery.json")
        json.dump(bat, open(bpath, "w"))
        hists.sort(key=len)                       # single-converter runs first: they define memo[cc]
        jobs = [("hist", h, bpath, work, i) for i, h in enumerate(hists)]
        jobs += [("sched", s, bpath, work, i) for i, s in enumerate(sel)]
        jobs += [("stress", 16, bpath, work, i) for i in range(stress_runs)]
        jobs += [("shared", 8, bpath, work, i) for i in range(stress_runs)]
        with cf.ThreadPoolExecutor(max_workers=common.NCPU) as ex:
            runs = list(ex.map(child, jobs))
        # the runs are validated in chunks (TLC's JsonDeserialize holds a whole trace in memory); the single-converter
        # runs come first in EVERY chunk: they define memo[cc], so all chunks are held against the same reference
        nref = sum(1 for r in runs if r["mode"] == "hist" and len(r["input"]) == 1)
        ref, rest = runs[:nref], runs[nref:]
        chunks, cur, size = [], [], 0
        for r in rest:
            if cur and size + len(r["events"]) > 120000:
                chunks.append(cur)
                cur, size = [], 0
            cur.append(r)
            size += len(r["events"])
        chunks.append(cur)
        nev = 0
        fails = []

        def validate(ci_chunk):
            ci, chunk = ci_chunk
            part = ref + chunk
            tp = os.path.join(work, "trace-%d.json" % ci)
            json.dump([{"events": r["events"]} for r in part], open(tp, "w"))
            n = sum(len(r["events"]) for r in part)
            rc, out = common.run_tlc("ConverterHistory", "CONSTANTS MaxLen = 0 NRuns = %d NEvents = %d\nINIT TInit\nNEXT TStep\nPOSTCONDITION AllConsumed\nCHECK_DEADLOCK FALSE\n" % (len(part), n),
                                     env={"CONV_TRACE": tp}, heap="4g")
            if '"@DONE' not in out:
                raise common.MachineryError("ConverterHistory.tla did not consume the trace:\n" + out[-2000:])
            os.unlink(tp)
            res = []
            for f in common.tagged_lines(out, "@F"):
                if f["run"] <= len(ref) and ci > 0:
                    continue                      # the reference runs are reported once (with chunk 0)
                res.append((part[f["run"] - 1], f))
            return n, res
        with cf.ThreadPoolExecutor(max_workers=4) as ex:
            for n, res in ex.map(validate, list(enumerate(chunks))):
                nev += n
                fails += res
        # configuration independence on a WIDE battery: one converter per configuration class, one run each (own memo)
        wide = battery_wide(work, tier)
        wpath = os.path.join(work, "battery-wide.json")
        json.dump(wide, open(wpath, "w"))
        wjobs = [("hist", [cfg], wpath, work, 9000 + i) for i, cfg in enumerate(("fresh", "user", "user_nodetail", "user_hook", "user_omit"))]
        with cf.ThreadPoolExecutor(max_workers=5) as ex:
            wruns = list(ex.map(child, wjobs))
        wtp = os.path.join(work, "trace-wide.json")
        json.dump([{"events": r["events"]} for r in wruns], open(wtp, "w"))
        wnev = sum(len(r["events"]) for r in wruns)
        rc, wout = common.run_tlc("ConverterHistory", "CONSTANTS MaxLen = 0 NRuns = %d NEvents = %d\nINIT TInit\nNEXT TStep\nPOSTCONDITION AllConsumed\nCHECK_DEADLOCK FALSE\n" % (len(wruns), wnev),
                                  env={"CONV_TRACE": wtp}, heap="6g")
        if '"@DONE' not in wout:
            raise common.MachineryError("ConverterHistory.tla did not consume the wide trace:\n" + wout[-2000:])
        for f in common.tagged_lines(wout, "@F"):
            r = wruns[f["run"] - 1]
            ev = r["events"][f["l"] - 1]
            item = wide[ev["input"]] if ev.get("e") == "Probe" else {}
            for clause in f["c"]:
                rep.violation({"clause": clause, "mode": "wide", "cfg": "/".join(r["input"]), "root": "%s:%s" % (item.get("kind", ""), item.get("cls", ""))},
                              {"mode": "wide", "input": r["input"], "event": ev, "expected": f.get("expected"), "value": item})
        nev += wnev
        for r, f in fails:
            ev = r["events"][f["l"] - 1]
            for clause in f["c"]:
                if clause == "H_create":
                    sig = {"clause": clause, "mode": r["mode"], "exc": ev["exc"].split(":")[0]}
                else:
                    sig = {"clause": clause, "mode": r["mode"], "cfg": "" if r["mode"] != "hist" else "/".join(r["input"])}
                rep.violation(sig, {"mode": r["mode"], "input": r["input"], "event": ev, "expected": f.get("expected")})
    finally:
        shutil.rmtree(work, ignore_errors=True)
    forced = sum(r["forced"] for r in runs if r["mode"] == "sched")
    deviated = sum(r["deviated"] for r in runs if r["mode"] == "sched")
    rep.coverage.update({
        "states": distinct, "transitions": gen,
        "traces_validated_against_impl": len(runs),
        "events_validated": nev,
        "design_level": design,
        "maximal_schedules_in_spec": len(scheds), "schedules_forced": len(sel),
        "abstract_transitions": ntrans, "abstract_transitions_covered_by_selection": ntrans if sel else 0,
        "schedule_steps_forced_exactly": forced, "schedule_steps_deviated": deviated,
        "histories": len(hists), "history_max_len": hist_len, "stress_runs": stress_runs, "shared_converter_runs": stress_runs, "battery_inputs": len(bat), "wide_battery_inputs": len(wide), "wide_single_converter_runs": len(wruns),
        "exhaustive": tier == "thorough",
        "rule": "every maximal behaviour of ConverterInit.tla (2 threads, KItems=2, NClasses=2, unlocked design = most adversarial interleavings) is a schedule; quick forces a transition-covering subset, thorough all of them; every creation history over {fresh,user,user_nodetail,same_again} up to the bound; each run in a fresh interpreter; all Create/Probe events validated by ConverterHistory.tla",
        "samples": [{"schedule": [[x["t"], x["a"]] for x in sel[0]]}, {"history": hists[0]}, {"first_events": runs[0]["events"][:4]}],
    })
    rep.assumptions = ["yield points of the scheduler are Python call/line events inside lsprotocol/_hooks.py (switches inside C code are reached only by the stress runs)",
                       "a scheduled thread that does not reach its next yield point within %.2fs is treated as blocked (counted as deviated); verdicts use only errors and probe results" % 0.25]
    return rep
