"""C04 / C09 (and the static clauses of C10 / C13): the generated Python module against the
image PyImage.tla computes from the metamodel."""
import json
import os
import shutil
import subprocess

from . import common

CLAUSES = {
    "C04": {"I_special_and", "I_missing_class", "I_class_name", "I_missing_attribute", "I_extra_attribute", "I_duplicate_attribute", "I_required",
            "I_annotation", "I_validator", "I_literal_default", "I_default", "I_missing_enum", "I_enum_base", "I_missing_alias",
            "I_alias_type", "I_extra_definition"},
    "C09": {"M_missing_method", "M_extra_method", "M_message_class", "M_response_class", "M_params", "M_registration_options",
            "M_direction", "M_constant", "M_registry_missing", "M_registry_wrong_object", "M_unresolved_forward_reference"},
    "C10": {"I_special"},
    "C13": {"I_missing_enum", "I_enum_base", "I_enum_value_kind", "I_enum_value_missing_or_multiplicity", "I_enum_value_extra"},
}

CFG = "INIT Init\nNEXT Next\nCHECK_DEADLOCK FALSE\n"


def run(model=None, pkg_path=None):
    """-> (failures [{c,pos}], obligations dict, image summary)"""
    model = model or os.path.join(common.REPO, "generator", "lsp.json")
    pkg_path = pkg_path or os.path.join(common.REPO, "packages", "python")
    key = common.file_hash(common.tree_files(pkg_path, (".py",)) + [model, os.path.join(common.SPEC, "PyImage.tla"), os.path.join(common.SPEC, "LspMeta.tla"),
                                                                    os.path.join(common.VERIF, "harness", "introspect.py"), os.path.join(common.VERIF, "harness", "check_image.py")])[:24]
    cpath = os.path.join(common.CACHE, "image-" + key + ".json")
    if os.path.exists(cpath):
        return json.load(open(cpath))
    work = common.scratch("image-")
    try:
        res = None
        # the module is looked at twice: right after the first converter was created, and after the package has been
        # USED (several converters, messages parsed and written, objects compared and changed) under python -O
        # ... and once as a VENDORED copy: the package directory copied under another parent package, imported as
        # bundled_libs.lsprotocol while the original top-level lsprotocol stays importable (what it refers to must be itself)
        vend = os.path.join(work, "vendor")
        os.makedirs(os.path.join(vend, "bundled_libs"))
        open(os.path.join(vend, "bundled_libs", "__init__.py"), "w").close()
        shutil.copytree(os.path.join(pkg_path, "lsprotocol"), os.path.join(vend, "bundled_libs", "lsprotocol"), ignore=shutil.ignore_patterns("__pycache__"))
        for stage, extra in (("fresh", {}), ("used", {"VERIF_IMAGE_STAGE": "used", "PYTHONOPTIMIZE": "1", "PYTHONHASHSEED": "5"}),
                             ("vendored", {"VERIF_PKG_NAME": "bundled_libs.lsprotocol", "PYTHONPATH": vend + os.pathsep + pkg_path + os.pathsep + common.VERIF})):
            ip = os.path.join(work, "image-%s.json" % stage)
            env = dict(os.environ, PYTHONPATH=pkg_path + os.pathsep + common.VERIF, PYTHONHASHSEED="0")
            env.update(extra)
            p = subprocess.run([common.PY, "-m", "harness.introspect", ip, model], cwd=common.VERIF, env=env, stdout=subprocess.PIPE, stderr=subprocess.PIPE)
            if p.returncode != 0:
                # the module does not even import / introspect: that is a finding of C04, reported by the caller
                return {"fails": [{"c": "I_import", "pos": p.stderr.decode().strip().splitlines()[-1][:200]}], "obligations": {}, "summary": {}, "sample": {}}
            summary = json.loads(p.stdout.decode().strip().splitlines()[-1])
            rc, out = common.run_tlc("PyImage", CFG, env={"LSP_MODEL": model, "PY_IMAGE": ip}, heap="3g")
            obl = list(common.tagged_lines(out, "@O"))
            if not obl or "No error has been found" not in out:
                raise common.MachineryError("PyImage.tla failed:\n" + out[-3000:])
            fails = list(common.tagged_lines(out, "@F"))
            if res is None:
                img = json.load(open(ip))
                sample = {"class Position": img["classes"].get("Position"), "method initialize": img["methods"].get("initialize")}
                res = {"fails": fails, "obligations": obl[0], "summary": summary, "sample": sample, "stages": ["fresh"]}
            else:
                known = {(f["c"], f["pos"]) for f in res["fails"]}
                res["fails"] += [dict(f, pos=f["pos"] + ("|after use" if stage == "used" else "|vendored copy")) for f in fails if (f["c"], f["pos"]) not in known]
                res["stages"].append(stage)
    finally:
        shutil.rmtree(work, ignore_errors=True)
    os.makedirs(common.CACHE, exist_ok=True)
    json.dump(res, open(cpath, "w"))
    return res


def emit_order(types_py, model):
    """Def events of a types.py judged by EmitOrder.tla -> list of {c, pos}."""
    from . import emit_order as eo
    work = common.scratch("emit-")
    try:
        doc = eo.events(types_py)
        tp = os.path.join(work, "emit.json")
        json.dump(doc, open(tp, "w"))
        n = len(doc["events"])
        rc, out = common.run_tlc("EmitOrder", "CONSTANTS NEvents = %d\nINIT TInit\nNEXT Step\nPOSTCONDITION AllConsumed\nCHECK_DEADLOCK FALSE\n" % n,
                                 env={"LSP_MODEL": model, "EMIT_TRACE": tp}, heap="2g")
        if '"@DONE' not in out:
            raise common.MachineryError("EmitOrder.tla did not consume the emission trace:\n" + out[-2500:])
        fails = []
        for f in common.tagged_lines(out, "@F"):
            for c in f["c"]:
                fails.append({"c": c, "pos": f["name"] + ("<-" + ",".join(sorted(f["missing"])) if f["missing"] else "")})
        return fails, n
    finally:
        shutil.rmtree(work, ignore_errors=True)


def add_to(rep, prop, res):
    for f in res["fails"]:
        if f["c"] in CLAUSES[prop] or (f["c"] == "I_import" and prop in ("C04", "C09")):
            rep.violation({"clause": f["c"], "pos": f["pos"]}, f)
    rep.coverage["image_obligations"] = res["obligations"]
    rep.coverage["image_clauses"] = sorted(CLAUSES[prop])


def check(prop, tier):
    rep = common.Reporter(prop, tier, "model_checking")
    res = run()
    add_to(rep, prop, res)
    o = res["obligations"]
    n = (o.get("structures", 0) + o.get("enums", 0) + o.get("aliases", 0) + o.get("properties", 0)) if prop == "C04" else (o.get("methods", 0) * 6 + o.get("registry", 0))
    rep.coverage.update({
        "states": 2, "transitions": 1, "traces_validated_against_impl": 1,
        "declarations_compared": n, "exhaustive": True,
        "rule": "single-step TLC evaluation of PyImage.tla: the expected image is computed from the working-tree metamodel for every declaration and compared both ways with the image introspected from the imported module after get_converter()",
        "samples": [res["sample"]],
        "introspected": res["summary"],
    })
    rep.assumptions = ["harness/introspect.py reports attrs.fields / enum members / module attributes / catalogue dicts faithfully (type annotations as terms, validators by class name)",
                       "documented mapping of metamodel types to typing annotations as written in PyImage.tla (PyAnn)"]
    if prop == "C04":
        # the emission order of the committed module (state machine D)
        ef, nev = emit_order(os.path.join(common.REPO, "packages", "python", "lsprotocol", "types.py"), os.path.join(common.REPO, "generator", "lsp.json"))
        for f in ef:
            rep.violation({"clause": f["c"], "pos": f["pos"]}, f)
        rep.coverage["emission_events_validated"] = nev
        # literal properties only accept their literal, wire names: decided on real objects by the codec pipeline
        from . import checks_codec, codec_check
        r = codec_check.run(tier)
        for f in r["fails"]:
            s = f["session"]
            if s["sk"] == "lit":
                for clause in sorted(set(f["c"]) & {"K_reject", "S_reject"}):
                    rep.violation(checks_codec.signature(prop, clause, f), {"session": s, "failing_event": f["l"]})
        rep.coverage["literal_sessions"] = r["by_kind"].get("lit", 0)
        rep.coverage["traces_validated_against_impl"] = 1 + r["by_kind"].get("lit", 0)
    return rep
