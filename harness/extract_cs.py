"""Projection of the generated C# sources (one directory of .cs files) to an image document for
DotnetImage.tla.  The generator's output is regular (one attribute per line, one property per
line), so a line-oriented reader with a small generic-type parser is enough."""
import glob
import json
import os
import re
import sys

from .pyside import encode

RECORD_RE = re.compile(r"^\s*public\s+(?:partial\s+)?(record|class|enum|static class)\s+([A-Za-z_][A-Za-z0-9_]*)\s*(?::\s*(.*?))?\s*\{?\s*$")
PROP_RE = re.compile(r"^\s*public\s+(?!static)(?P<ty>[^=;{]+?)\s+(?P<name>[A-Za-z_][A-Za-z0-9_]*)\s*\{\s*get")
STATIC_RE = re.compile(r'^\s*public\s+static\s+string\s+([A-Za-z_][A-Za-z0-9_]*)\s*\{\s*get;\s*\}\s*=\s*"([^"]*)";')
DM_RE = re.compile(r'\[DataMember\(Name\s*=\s*"([^"]*)"\)\]')
ENUM_STR_RE = re.compile(r'^\s*\[EnumMember\(Value\s*=\s*"([^"]*)"\)\]\s*([A-Za-z_][A-Za-z0-9_]*)\s*,?')
ENUM_INT_RE = re.compile(r"^\s*([A-Za-z_][A-Za-z0-9_]*)\s*=\s*(-?\d+)\s*,?\s*$")
ASSIGN_RE = re.compile(r"^\s*([A-Za-z_][A-Za-z0-9_]*)\s*=\s*[^=].*;\s*$")


def parse_type(s):
    """C# type text -> (term, nullable).  term = {"c": name, "a": [terms]}, tuples as "(tuple)"."""
    s = s.strip()
    nullable = False
    if s.endswith("?"):
        nullable = True
        s = s[:-1].strip()
    pos = [0]

    def term():
        while pos[0] < len(s) and s[pos[0]] == " ":
            pos[0] += 1
        if s[pos[0]] == "(":
            pos[0] += 1
            items = []
            while s[pos[0]] != ")":
                items.append(term())
                while s[pos[0]] in ", ":
                    pos[0] += 1
            pos[0] += 1
            t = {"c": "(tuple)", "a": items}
        else:
            m = re.match(r"[A-Za-z_][A-Za-z0-9_.]*", s[pos[0]:])
            name = m.group(0)
            pos[0] += len(name)
            args = []
            if pos[0] < len(s) and s[pos[0]] == "<":
                pos[0] += 1
                while s[pos[0]] != ">":
                    args.append(term())
                    while s[pos[0]] in ", ":
                        pos[0] += 1
                pos[0] += 1
            t = {"c": name, "a": args}
        if pos[0] < len(s) and s[pos[0]] == "?":
            pos[0] += 1
            t = {"c": "(nullable)", "a": [t]}
        return t
    return term(), nullable


def parse_file(path):
    lines = open(path, encoding="utf-8").read().splitlines()
    out = {"records": {}, "enums": {}, "methods": {}}
    cur = None
    kind = None
    pending = []          # attribute lines seen since the last declaration
    in_ctor = 0
    for line in lines:
        st = line.strip()
        if st.startswith("///") or st.startswith("//") or not st:
            continue
        m = RECORD_RE.match(line)
        if m and cur is None or (m and m.group(1) in ("record", "class", "enum", "static class") and not PROP_RE.match(line)):
            kind, name, base = m.group(1), m.group(2), m.group(3) or ""
            attrs = " ".join(pending)
            pending = []
            if kind == "enum":
                cur = out["enums"].setdefault(name, {"members": []})
            elif kind == "static class":
                cur = out["methods"]
            else:
                d = re.search(r"\[Direction\(MessageDirection\.([A-Za-z]+)\)\]", attrs)
                rq = re.search(r'\[LSPRequest\("([^"]*)",\s*typeof\(([A-Za-z0-9_]+)\)', attrs)
                rs = re.search(r"\[LSPResponse\(typeof\(([A-Za-z0-9_]+)\)\)\]", attrs)
                cur = out["records"].setdefault(name, {"direction": d.group(1) if d else "", "req_method": rq.group(1) if rq else "",
                                                       "req_resp": rq.group(2) if rq else "", "resp_of": rs.group(1) if rs else "",
                                                       "has_lsp_request": bool(rq), "base": base.rstrip("{ ").strip(),
                                                       "props": [], "ctor_assigned": [], "has_json_ctor": False})
            continue
        if st.startswith("["):
            if "[JsonConstructor]" in st and kind in ("record", "class"):
                cur["has_json_ctor"] = True
                in_ctor = 1
                continue
            em = ENUM_STR_RE.match(line)
            if em and kind == "enum":
                cur["members"].append({"name": em.group(2), "value": encode(em.group(1))})
                continue
            pending.append(st)
            continue
        if kind == "enum":
            em = ENUM_INT_RE.match(line)
            if em:
                cur["members"].append({"name": em.group(1), "value": encode(int(em.group(2)))})
            continue
        if kind == "static class":
            sm = STATIC_RE.match(line)
            if sm:
                cur[sm.group(1)] = sm.group(2)
            pending = []
            continue
        if kind in ("record", "class") and cur is not None:
            if in_ctor:
                # constructor: header ... ')' '{' assignments '}'
                if st == "{":
                    in_ctor = 2
                elif st == "}" and in_ctor == 2:
                    in_ctor = 0
                    pending = []
                elif in_ctor == 2:
                    am = ASSIGN_RE.match(line)
                    if am:
                        cur["ctor_assigned"].append(am.group(1))
                continue
            pm = PROP_RE.match(line)
            if pm:
                attrs = " ".join(pending)
                pending = []
                dm = DM_RE.search(attrs)
                ty, nullable = parse_type(pm.group("ty"))
                cur["props"].append({"name": pm.group("name"), "wire": dm.group(1) if dm else "", "has_data_member": bool(dm),
                                     "ty": ty, "nullable": nullable,
                                     "ignore_null": "NullValueHandling.Ignore" in attrs})
                continue
            if st.startswith("private "):
                pending = []
    return out


def parse_dir(d):
    img = {"records": {}, "enums": {}, "methods": {}, "files": 0}
    for path in sorted(glob.glob(os.path.join(d, "*.cs"))):
        img["files"] += 1
        part = parse_file(path)
        for k in ("records", "enums"):
            for name, v in part[k].items():
                if name in img[k]:
                    img.setdefault("duplicates", []).append(name)
                img[k][name] = v
        img["methods"].update(part["methods"])
    return img


def main(argv):
    img = parse_dir(argv[1])
    json.dump(img, open(argv[2], "w"))
    print(json.dumps({"records": len(img["records"]), "enums": len(img["enums"]), "methods": len(img["methods"]), "files": img["files"]}))


if __name__ == "__main__":
    main(sys.argv)
