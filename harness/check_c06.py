"""C06: the generator is correct on every schema-valid evolution of the metamodel.

Edit scripts are the behaviours of Evolution.tla.  Each script is applied to generator/lsp.json,
the application is validated by TLC (effect + frame), the four plugins are run on the evolved
model through the real CLI, and the per-package machinery of C01-C04, C07-C10, C17 is re-run with
the evolved model as the specification's constant (LSP_MODEL)."""
import concurrent.futures as cf
import copy
import json
import os
import shutil
import subprocess

from . import check_c17, check_gen, check_image, check_srcimage, codec_check, checks_codec, common
from .pyside import encode

NEW_S, NEW_E = "VerifNewStruct", "VerifNewKind"


def generation(maxlen, profile):
    cfg = ("CONSTANTS MaxLen = %d Profile = \"%s\"\nINIT GInit\nNEXT GNext\nINVARIANT EmitScript\nCHECK_DEADLOCK FALSE\n" % (maxlen, profile))
    rc, out = common.run_tlc("Evolution", cfg, workers=4, heap="4g")
    if "No error has been found" not in out:
        raise common.MachineryError("Evolution.tla generation failed:\n" + out[-2500:])
    scripts = list(common.tagged_lines(out, "@E"))
    pool = list(common.tagged_lines(out, "@T"))
    return scripts, pool[0], common.tlc_stats(out)


MARK_TEXTS = {"plain": "9.9.9 verif", "multiline": "9.9.9\nsecond line of the mark.", "crlf": "9.9.9\r\nsecond line of the mark.",
              "quotes": "use \"other\" instead \\ */ \'\'\' " + '"' * 3 + " ' done"}


def struct(doc, name):
    return next(s for s in doc["structures"] if s["name"] == name)


def apply_script(base, script, typool):
    """-> (evolved document, annotated script for the trace check, touched root names)."""
    d = copy.deepcopy(base)
    ann = []
    touched = set()
    for e in script:
        k = e["k"]
        a = {"k": k, "touch": "", "list": "", "index": 0, "removed": "", "ins": None}
        if k == "AddStructure":
            d["structures"].append({"name": e["name"], "properties": []})
            a.update(touch=e["name"], list="structures")
            touched.add(e["name"])
        elif k in ("AddProperty", "OverrideProperty"):
            pname = e["name"] if e["name"] != "@self" else e["target"][0].lower() + e["target"][1:]
            p = {"name": pname, "type": copy.deepcopy(typool[e["ty"]])}
            if e["optional"]:
                p["optional"] = True
            struct(d, e["target"])["properties"].append(p)
            a.update(touch=e["target"], list="structures", ins=p)
            touched.add(e["target"])
        elif k in ("AddExtends", "AddMixin"):
            ref = {"kind": "reference", "name": e["parent"]}
            struct(d, e["target"]).setdefault("extends" if k == "AddExtends" else "mixins", []).append(ref)
            a.update(touch=e["target"], list="structures", ins=ref)
            touched.add(e["target"])
        elif k == "AddEnum":
            s = e["base"] == "string"
            en = {"name": e["name"], "type": {"kind": "base", "name": e["base"]},
                  "values": [{"name": "First", "value": "first" if s else 1}, {"name": "Second", "value": "second" if s else 2}]}
            d["enumerations"].append(en)
            a.update(touch=e["name"], list="enumerations")
            # a structure using the new enum makes it reachable for the codec / vectors
            d["structures"].append({"name": "VerifKindHolder", "properties": [{"name": "kind", "type": {"kind": "reference", "name": e["name"]}},
                                                                                 {"name": "kinds", "type": {"kind": "array", "element": {"kind": "reference", "name": e["name"]}}, "optional": True}]})
            ann.append({"k": "AddStructure", "touch": "VerifKindHolder", "list": "structures", "index": 0, "removed": "", "ins": {"k": "null"}})
            touched.add("VerifKindHolder")
        elif k == "AddEnumValue":
            en = next(x for x in d["enumerations"] if x["name"] == e["target"])
            v = {"name": "VerifAdded", "value": "verifAdded" if en["type"]["name"] == "string" else 4242}
            en["values"].append(v)
            a.update(touch=e["target"], list="enumerations", ins=v)
        elif k == "AddRequest":
            r = {"method": "verif/lookup", "messageDirection": "clientToServer"}
            if e["typed"] != "none":
                r["typeName"] = {"suffixed": "VerifNewRequest", "plain": "VerifLookup", "infix": "VerifRequestReviewRequest"}[e["typed"]]
            if e["params"] == "ref":
                r["params"] = {"kind": "reference", "name": "HoverParams"}
            r["result"] = {"ref": {"kind": "reference", "name": "Hover"},
                           "orNull": {"kind": "or", "items": [{"kind": "reference", "name": "Hover"}, {"kind": "base", "name": "null"}]},
                           "null": {"kind": "base", "name": "null"},
                           "enumArray": {"kind": "array", "element": {"kind": "reference", "name": "SymbolKind"}}}[e["result"]]
            d["requests"].append(r)
            a.update(list="requests", ins=r)
            touched.add("verif/lookup")
        elif k == "AddNotification":
            r = {"method": "verif/didLookup", "messageDirection": "serverToClient"}
            if e["typed"] != "none":
                r["typeName"] = {"suffixed": "VerifNewNotification", "plain": "VerifDidLookup", "infix": "VerifNotificationLogNotification"}[e["typed"]]
            if e["params"] == "ref":
                r["params"] = {"kind": "reference", "name": "HoverParams"}
            d["notifications"].append(r)
            a.update(list="notifications", ins=r)
            touched.add("verif/didLookup")
        elif k == "Mark":
            text = MARK_TEXTS[e.get("text", "plain")]
            val = {"proposed": True, "notProposed": False, "deprecated": text, "since": text}[e["mark"]]
            key = "proposed" if e["mark"] == "notProposed" else e["mark"]
            if e["on"] == "structure":
                struct(d, "Color")[key] = val
                a.update(touch="Color", list="structures")
                touched.add("Color")
            elif e["on"] == "property":
                struct(d, "Color")["properties"][0][key] = val
                a.update(touch="Color", list="structures")
                touched.add("Color")
            elif e["on"] == "soleEnumValue":
                en = next(x for x in d["enumerations"] if len(x["values"]) == 1 and not x.get("supportsCustomValues"))
                en["values"][0][key] = val
                a.update(touch=en["name"], list="enumerations")
                touched.add(en["name"])
            elif e["on"] == "enumValue":
                en = next(x for x in d["enumerations"] if x["name"] == "MarkupKind")
                en["values"][0][key] = val
                a.update(touch="MarkupKind", list="enumerations")
            else:
                d["requests"][0][key] = val
                a.update(list="requests", index=1)
        elif k == "RemoveOptionalProperty":
            s = struct(d, e["target"])
            idx = max(i for i, p in enumerate(s["properties"]) if p.get("optional"))
            removed = s["properties"].pop(idx)["name"]
            a.update(touch=e["target"], list="structures", removed=removed)
            touched.add(e["target"])
        a["ins"] = encode(a["ins"]) if a["ins"] is not None else {"k": "null"}
        ann.append(a)
    return d, ann, sorted(touched)


def scratch_package(work, types_py):
    """lsprotocol package = freshly generated types.py + the unchanged runtime files of the tree."""
    pkg = os.path.join(work, "pkg", "lsprotocol")
    os.makedirs(pkg)
    src = os.path.join(common.REPO, "packages", "python", "lsprotocol")
    for f in os.listdir(src):
        if f.endswith(".py") and f != "types.py" or f == "py.typed":
            shutil.copy(os.path.join(src, f), os.path.join(pkg, f))
    shutil.copy(types_py, os.path.join(pkg, "types.py"))
    return os.path.dirname(pkg)


def run_plugin(plugin, model, work, alt=False):
    out, test = os.path.join(work, plugin + "-out"), os.path.join(work, plugin + "-test")
    os.makedirs(out)
    shutil.copytree(os.path.join(common.REPO, "tests", "rust"), test, ignore=shutil.ignore_patterns("target"))
    env = dict(os.environ, PYTHONPATH=common.REPO, PYTHONHASHSEED="0")
    if alt:       # every second evolved model is generated by another kind of process: python -O, another hash seed
        env.update(PYTHONOPTIMIZE="1", PYTHONHASHSEED="7")
    p = subprocess.run([common.PY, "-m", "generator", "--model", model, "--plugin", plugin, "--output-dir", out, "--test-dir", test],
                       cwd=common.REPO, env=env, stdout=subprocess.PIPE, stderr=subprocess.STDOUT, timeout=1800)
    return p.returncode, p.stdout.decode()[-1200:], out


def one_model(args):
    idx, script, typool, base, tier = args
    work = common.scratch("c06-%d-" % idx)
    fails = []
    label = "+".join(e["k"] + ((":" + e["ty"]) if "ty" in e else "") + ((":" + e["mark"] + "/" + e.get("text", "plain")) if e["k"] == "Mark" else "") + ((":" + e["name"]) if e["k"] == "AddProperty" else "") for e in script) or "identity"

    def fail(stage, clause, pos, detail=None):
        fails.append({"stage": stage, "clause": clause, "pos": pos, "detail": detail})
    stats = {"label": label, "codec_sessions": 0, "vectors": 0}
    try:
        evolved, ann, touched = apply_script(base, script, typool)
        mpath = os.path.join(work, "evolved.json")
        json.dump(evolved, open(mpath, "w"))
        # 1. TLC validates the edit application (effect + frame)
        tp = os.path.join(work, "evo-trace.json")
        json.dump({"base": encode(base), "evolved": encode(evolved), "script": [{k: (v if k == "ins" else (encode(v))) for k, v in a.items()} for a in ann]}, open(tp, "w"))
        rc, out = common.run_tlc("Evolution", "CONSTANTS MaxLen = 0 Profile = \"quick\"\nINIT TInit\nNEXT TNext\nCHECK_DEADLOCK FALSE\n",
                                 env={"EVO_TRACE": tp}, heap="4g")
        if '"@DONE"' not in out:
            raise common.MachineryError("Evolution.tla trace check failed for %s:\n%s" % (label, out[-2500:]))
        for f in common.tagged_lines(out, "@F"):
            raise common.MachineryError("the harness applied %s wrongly (%s)" % (label, f))
        if check_c18_schema_invalid(evolved):
            raise common.MachineryError("edit script %s produced a schema-invalid model" % label)
        # 2. the four plugins
        outs = {}
        for plugin in ("python", "rust", "dotnet"):
            rc, log, o = run_plugin(plugin, mpath, work, alt=idx % 2 == 1)
            if rc != 0:
                fail(plugin, "G_plugin_failed", plugin, log[-600:])
            else:
                outs[plugin] = o
        # 3. Python package: image (C04 C09 C10 C13 static) and codec sessions on the touched declarations (C01 C02 C03 C10)
        if "python" in outs:
            pkg = scratch_package(work, os.path.join(outs["python"], "lsprotocol", "types.py"))
            try:
                ef, _ = check_image.emit_order(os.path.join(outs["python"], "lsprotocol", "types.py"), mpath)
            except SyntaxError as e:                  # the generated module is not Python at all: a verdict, not a machinery failure
                ef = [{"c": "O_does_not_parse", "pos": "%s line %s" % (type(e).__name__, e.lineno)}]
            for f in ef:
                fail("python-emission", f["c"], f["pos"])
            res = check_image.run(model=mpath, pkg_path=pkg)
            for f in res["fails"]:
                fail("python-image", f["c"], f["pos"])
            if not any(f["c"] == "I_import" for f in res["fails"]):
                names = touched if script else []
                passes = ([dict(roots="named", names=names, K=2, KV=1, KU=2, shards=1)] if names else
                          [dict(roots="all", K=1, KV=1, KU=0, shards=4)])
                try:
                    r = codec_check.run(tier, model=mpath, pkg_path=pkg, passes=passes, use_cache=False)
                    stats["codec_sessions"] = r["sessions"]
                    for f in r["fails"]:
                        s = f["session"]
                        for clause in f["c"]:
                            sig = checks_codec.signature("C06", clause, f)
                            fail("python-codec", clause, sig["pos"], {"exc": sig["exc"], "sk": s["sk"]})
                except common.MachineryError as e:
                    fail("python-codec", "G_codec_machinery", "codec", str(e)[-600:])
        # 4. Rust and .NET sources
        if "rust" in outs:
            ip, parses, err, img = check_srcimage.rust_image(os.path.join(outs["rust"], "lsprotocol", "src", "lib.rs"), work, "gen")
            if not parses:
                fail("rust", "R_does_not_parse", "lib.rs", err)
            fl, _, _ = check_srcimage.judge("RustImage", "RUST_IMAGE", ip, mpath)
            for f in fl:
                fail("rust", f["c"], f["pos"])
        if "dotnet" in outs:
            from . import extract_cs
            img = extract_cs.parse_dir(os.path.join(outs["dotnet"], "lsprotocol"))
            img["private_names"] = [s["name"] for s in evolved["structures"] if s["name"].startswith("_")]
            ip = os.path.join(work, "cs-image.json")
            json.dump(img, open(ip, "w"))
            fl, _, _ = check_srcimage.judge("DotnetImage", "CS_IMAGE", ip, mpath)
            for f in fl:
                fail("dotnet", f["c"], f["pos"])
        # 5. test vectors: on a reference-closed sub-model that contains the touched messages (quick) or the evolved model (thorough identity)
        sub = vector_submodel(evolved, script, touched)
        spath = os.path.join(work, "sub.json")
        json.dump(sub, open(spath, "w"))
        rc, log, o = run_plugin("testdata", spath, work, alt=idx % 2 == 1)
        if rc != 0:
            fail("testdata", "G_plugin_failed", "testdata", log[-600:])
        elif "python" in outs:
            vf, nvec = vectors_on(o, spath, pkg, work)
            stats["vectors"] = nvec
            for f in vf:
                fail("testdata", f["clause"], f["pos"])
    finally:
        shutil.rmtree(work, ignore_errors=True)
    return {"script": script, "label": label, "fails": fails, "stats": stats}


def check_c18_schema_invalid(doc):
    from .check_c18 import schema_invalid
    return schema_invalid(doc)


def closure_of(evolved, msg, by):
    need, done = set(), set()
    for key in ("params", "result", "partialResult", "registrationOptions", "errorData"):
        if isinstance(msg.get(key), dict):
            check_gen.referenced(msg[key], need)
    while need - done:
        n = (need - done).pop()
        done.add(n)
        if n in by:
            l, d = by[n]
            if l == "structures":
                for p in d["properties"]:
                    check_gen.referenced(p["type"], need)
                for e in d.get("extends", []) + d.get("mixins", []):
                    check_gen.referenced(e, need)
            elif l == "typeAliases":
                check_gen.referenced(d["type"], need)
    return done


def vector_submodel(evolved, script, touched=()):
    """Reference-closed sub-model: the new / a few existing messages, up to two messages that REACH each touched
    declaration (so that the vectors exercise the edit), and everything they mention."""
    base = check_gen.closed_submodel(evolved)
    have_r = {r["method"] for r in base["requests"]}
    have_n = {r["method"] for r in base["notifications"]}
    extra_r = [r for r in evolved["requests"] if r["method"].startswith("verif/") and r["method"] not in have_r]
    extra_n = [r for r in evolved["notifications"] if r["method"].startswith("verif/") and r["method"] not in have_n]
    byname = {}
    for l in ("structures", "enumerations", "typeAliases"):
        for d in evolved[l]:
            byname[d["name"]] = (l, d)
    for t in touched:
        if t not in byname:
            continue
        found = 0
        for lst, extra, have in ((evolved["requests"], extra_r, have_r), (evolved["notifications"], extra_n, have_n)):
            for m in lst:
                if found >= 2:
                    break
                if m["method"] in have or m in extra:
                    continue
                cl = closure_of(evolved, m, byname)
                if t in cl and len(cl) < 60:          # small closures only: the corpus grows fast
                    extra.append(m)
                    found += 1
    if not extra_r and not extra_n:
        return base
    tmp = copy.deepcopy(evolved)
    tmp["requests"] = base["requests"] + extra_r
    tmp["notifications"] = base["notifications"] + extra_n
    need = set()
    for m in tmp["requests"] + tmp["notifications"]:
        for key in ("params", "result", "partialResult", "registrationOptions", "errorData"):
            if isinstance(m.get(key), dict):
                check_gen.referenced(m[key], need)
    by = {}
    for l in ("structures", "enumerations", "typeAliases"):
        for d in evolved[l]:
            by[d["name"]] = (l, d)
    done = set()
    need |= {"LSPAny", "LSPObject", "LSPArray"}
    while need - done:
        n = (need - done).pop()
        done.add(n)
        if n in by:
            l, d = by[n]
            if l == "structures":
                for p in d["properties"]:
                    check_gen.referenced(p["type"], need)
                for e in d.get("extends", []) + d.get("mixins", []):
                    check_gen.referenced(e, need)
            elif l == "typeAliases":
                check_gen.referenced(d["type"], need)
    for l in ("structures", "enumerations", "typeAliases"):
        tmp[l] = [d for d in evolved[l] if d["name"] in done]
    return tmp


def vectors_on(outdir, model, pkg, work):
    """Judge every vector of a (small) corpus with Vectors.tla; class names resolved through the evolved package."""
    names = sorted(n for n in os.listdir(outdir) if n.endswith(".json"))
    fl = os.path.join(work, "vec-files.json")
    json.dump(names, open(fl, "w"))
    env = dict(os.environ, PYTHONPATH=pkg + os.pathsep + common.VERIF, PYTHONHASHSEED="0")
    p = subprocess.run([common.PY, "-c", check_c17.WORKER, fl, os.path.join(work, "vec"), outdir, common.VERIF], env=env, stdout=subprocess.PIPE, stderr=subprocess.PIPE)
    if p.returncode != 0:
        return [{"clause": "V_worker_failed", "pos": p.stderr.decode().strip().splitlines()[-1][:200]}], 0
    info = json.loads(p.stdout.decode().strip().splitlines()[-1])
    out, n = [], 0
    for b in info["bad_names"][:5]:
        out.append({"clause": "V_unknown_class", "pos": b.split("-")[0]})
    seen = set()
    for ch in info["chunks"]:
        rc, o = common.run_tlc("Vectors", "CONSTANTS NEvents = %d\nINIT TInit\nNEXT TStep\nPOSTCONDITION AllConsumed\nCHECK_DEADLOCK FALSE\n" % ch["n"],
                               env={"LSP_MODEL": model, "VEC_TRACE": ch["path"]}, heap="3g")
        if '"@DONE' not in o:
            raise common.MachineryError("Vectors.tla did not consume an evolved corpus chunk:\n" + o[-2000:])
        n += ch["n"]
        recs = json.load(open(ch["path"], encoding="utf-8"))
        for f in common.tagged_lines(o, "@F"):
            r = recs[f["l"] - 1]
            for c in f["c"]:
                out.append({"clause": c, "pos": "%s:%s" % (r["kind"], r["method"])})
        for t in common.tagged_lines(o, "@T"):
            for pair in t:
                seen.add((pair[0], pair[1]))
    mdoc = json.load(open(model))
    want = {("request", r["method"]) for r in mdoc["requests"]} | {("response", r["method"]) for r in mdoc["requests"]} | {("notification", r["method"]) for r in mdoc["notifications"]}
    for c in sorted(want - seen):
        out.append({"clause": "V_no_true_vector", "pos": "%s:%s" % c})
    return out, n


def check(tier):
    rep = common.Reporter("C06", tier, "model_checking")
    scripts, typool, (gen, distinct) = generation(1 if tier == "quick" else 2, "quick" if tier == "quick" else "thorough")
    if tier == "thorough":
        import random
        rnd = random.Random(common.seed())
        singles = [s for s in scripts if len(s) <= 1]
        pairs = [s for s in scripts if len(s) == 2]
        rnd.shuffle(pairs)
        q, _, _ = generation(1, "quick")
        scripts = [[]] + [s for s in q if s] + rnd.sample(singles, min(len(singles), 120)) + pairs[:160]
    # dependent edits need their predecessor: add the canonical length-2 scripts
    extra = [
        [{"k": "AddStructure", "name": NEW_S}, {"k": "AddProperty", "target": NEW_S, "name": "verifProp", "ty": "arrayLiteral", "optional": False}],
        [{"k": "AddStructure", "name": NEW_S}, {"k": "AddExtends", "target": NEW_S, "parent": "Position"}],
        [{"k": "AddStructure", "name": NEW_S}, {"k": "AddMixin", "target": NEW_S, "parent": "WorkDoneProgressParams"}],
        # parents that have parents of their own (inheritance must be flattened transitively through mixins and extends)
        [{"k": "AddStructure", "name": NEW_S}, {"k": "AddMixin", "target": NEW_S, "parent": "HoverOptions"}],
        [{"k": "AddStructure", "name": NEW_S}, {"k": "AddExtends", "target": NEW_S, "parent": "HoverParams"}],
        # a chain of four: a second new structure on top of the first, on top of one with a base of its own
        [{"k": "AddStructure", "name": NEW_S}, {"k": "AddExtends", "target": NEW_S, "parent": "HoverRegistrationOptions"},
         {"k": "AddStructure", "name": NEW_S + "2"}, {"k": "AddExtends", "target": NEW_S + "2", "parent": NEW_S},
         {"k": "AddProperty", "target": NEW_S + "2", "name": "verifProp", "ty": "string", "optional": False}],
        # an inherited property re-declared with the other integer type in the middle of a chain of three (nearest wins), and a
        # null-admitting one re-declared as plain optional
        [{"k": "AddStructure", "name": NEW_S}, {"k": "AddExtends", "target": NEW_S, "parent": "VersionedTextDocumentIdentifier"},
         {"k": "OverrideProperty", "target": NEW_S, "name": "version", "ty": "uinteger", "optional": False},
         {"k": "AddStructure", "name": NEW_S + "2"}, {"k": "AddExtends", "target": NEW_S + "2", "parent": NEW_S}],
        [{"k": "AddStructure", "name": NEW_S}, {"k": "AddExtends", "target": NEW_S, "parent": "SignatureHelp"},
         {"k": "OverrideProperty", "target": NEW_S, "name": "activeParameter", "ty": "uinteger", "optional": True}],
        # two anonymous literals of one shape that differ only in a mark of an inner property
        [{"k": "AddProperty", "target": "Color", "name": "verifProp", "ty": "literalProposed", "optional": True},
         {"k": "AddProperty", "target": "Color", "name": "global", "ty": "literal", "optional": True}],
        [{"k": "AddProperty", "target": "Color", "name": "verifProp", "ty": "literal", "optional": True},
         {"k": "AddProperty", "target": "Color", "name": "global", "ty": "literalProposed", "optional": True}],
        [{"k": "AddEnum", "name": NEW_E, "base": "string"}, {"k": "AddEnumValue", "target": NEW_E}],
        # several anonymous literal types in one structure (the generators must name them apart)
        [{"k": "AddProperty", "target": "Color", "name": "verifProp", "ty": "literal", "optional": True},
         {"k": "AddProperty", "target": "Color", "name": "global", "ty": "arrayLiteral", "optional": False}],
        [{"k": "AddStructure", "name": NEW_S}, {"k": "AddProperty", "target": NEW_S, "name": "verifProp", "ty": "literal", "optional": False},
         {"k": "AddProperty", "target": NEW_S, "name": "class", "ty": "orLiteralNull", "optional": True}],
    ]
    seen, uniq = set(), []
    for s in scripts + extra:
        k = json.dumps(s, sort_keys=True)
        if k not in seen:
            seen.add(k)
            uniq.append(s)
    base = json.load(open(os.path.join(common.REPO, "generator", "lsp.json")))
    with cf.ThreadPoolExecutor(max_workers=max(2, (common.NCPU * 3) // 4)) as ex:
        results = list(ex.map(one_model, [(i, s, typool, base, tier) for i, s in enumerate(uniq)]))
    for r in results:
        for f in r["fails"]:
            kinds = "+".join(sorted({e["k"] + (":" + e["ty"] if "ty" in e else "") + ({"none": ":typeName-less", "plain": ":typeName-plain", "infix": ":typeName-infix", "suffixed": ""}[e["typed"]] if e["k"] in ("AddRequest", "AddNotification") else "") for e in r["script"]})) or "identity"
            rep.violation({"edit": kinds, "stage": f["stage"], "clause": f["clause"], "pos": f["pos"]}, {"script": r["script"], "failure": f})
    rep.coverage.update({"states": distinct, "transitions": gen, "traces_validated_against_impl": len(results),
                         "evolved_models": len(results), "edit_kinds": sorted({e["k"] for r in results for e in r["script"]}),
                         "codec_sessions_on_evolved_packages": sum(r["stats"]["codec_sessions"] for r in results),
                         "vectors_judged_on_evolved_models": sum(r["stats"]["vectors"] for r in results),
                         "exhaustive": False,
                         "rule": "edit scripts = behaviours of Evolution.tla (quick: identity + a covering selection of single edits + the canonical dependent pairs; thorough: sampled singles and pairs); each applied to generator/lsp.json, the application validated by TLC (effect and frame), schema-valid by jsonschema; python / rust / dotnet plugins on the evolved model, testdata plugin on a reference-closed sub-model containing the new messages; PyImage / RustImage / DotnetImage / Codec+CodecTrace (touched roots, K=2) / Vectors re-run with LSP_MODEL = evolved model",
                         "samples": [{"script": results[1]["script"] if len(results) > 1 else [], "label": results[1]["label"] if len(results) > 1 else "identity"}]})
    rep.assumptions = ["edit application by harness/check_c06.py, validated per script by Evolution.tla (EffectOK, FrameOK)",
                       "the evolved Python package is the freshly generated types.py next to the unchanged runtime files of the working tree",
                       "general new `or` types are not in the edit alphabet (they need a hand-written hook; the statement does not list them)"]
    return rep
