"""Per-property views of the shared codec pipeline (clause -> property table of CodecTrace.tla)."""
from . import codec_check, common

LEVEL = "model_checking"

ASSUME = [
    "refinement mapping of harness/pyside.py (tagged JSON encoding, projection of Python objects, keyword for a property = the unique attribute with the same name modulo underscores and case)",
    "TLC evaluates LspValue.tla / CodecTrace.tla faithfully; the metamodel is read by TLC from the working tree",
    "value universe bounded: every value within K single-position changes of the minimal instance of every root (K in coverage), scalar alphabets listed in Codec.tla",
]


def relevant(prop, f):
    """Which failing clauses of event f count for property prop."""
    s = f["session"]
    sk = s["sk"]
    l = f["l"]
    ev = s["ev"][l - 1]
    c = set(f["c"])
    pos = f["pos"]
    if prop == "C01":
        if sk == "reparse":
            return c & {"S_ok", "U_lossless", "U_raise"} if l >= 3 else set()
        return c & {"S_ok", "U_lossless", "U_raise", "U_idem"} if sk == "parse" else set()
    if prop == "C02":
        return c & {"K_ok", "U_exact", "U_idem", "S_ok", "U_raise"} if sk in ("ctor", "reunstructure") else set()
    if prop == "C03":
        return c & {"S_typed"}
    if prop == "C10":
        if sk == "ctor":
            return c & {"U_keys"}
        if sk == "dropspecial":
            return c & {"S_ok", "S_typed", "U_lossless", "U_raise"}
        if sk == "mutate" and l >= 3:      # which keys are written follows the object's CURRENT attributes
            return c & {"U_keys", "U_raise"}
        return set()
    if prop == "C11":
        return c & {"S_reject"} if sk in ("dropreq", "enum", "lit", "intval", "nested") else set()
    if prop == "C12":
        return c & {"S_ok", "S_reject", "K_ok", "K_reject"} if sk == "intval" else set()
    if prop == "C13":
        if sk == "enum":
            return c & {"S_reject"}
        if sk in ("parse", "ctor") and any(p.endswith("|enum") for p in pos):
            return c & {"U_lossless", "U_exact", "S_typed", "U_idem"}
        return set()
    if prop == "C14":
        if sk != "parse":
            return set()
        out = set()
        if "S_ok" in c and ev.get("atunion"):
            out.add("S_ok")
        if any(p.endswith("|union") for p in pos):
            out |= c & {"S_typed", "U_lossless"}
        return out
    if prop == "C15":
        return c & {"S_ok", "X_same", "S_typed", "U_raise"} if sk == "unk" and l >= 3 else set()
    return set()


SESSION_KINDS = {
    "C01": ["parse", "reparse"], "C02": ["ctor", "reunstructure"], "C03": ["parse", "ctor", "unk", "dropspecial"], "C10": ["ctor", "dropspecial", "mutate"],
    "C11": ["dropreq", "enum", "lit", "intval", "nested"], "C12": ["intval"], "C13": ["enum", "parse", "ctor"], "C14": ["parse"],
    "C15": ["unk"],
}


def signature(prop, clause, f):
    s = f["session"]
    ev = s["ev"][f["l"] - 1]
    if f["pos"]:
        pos = min(f["pos"])
    elif ev.get("pos"):
        pos = ev["pos"]
    else:
        pos = "%s:%s%s" % (s["root"]["kind"], s["root"]["name"], ("." + s["var"]["name"]) if s["var"].get("name") else "")
    return {"clause": clause, "pos": pos, "exc": ev.get("exc", "")}


def check(prop, tier, extra_cov=None):
    rep = common.Reporter(prop, tier, LEVEL)
    res = codec_check.run(tier)
    for f in res["fails"]:
        for clause in sorted(relevant(prop, f)):
            rep.violation(signature(prop, clause, f), {"session": f["session"], "failing_event": f["l"], "clauses": f["c"], "positions": f["pos"]})
    kinds = SESSION_KINDS[prop]
    rep.coverage.update({
        "states": res["states"], "transitions": res["transitions"],
        "traces_validated_against_impl": sum(res["by_kind"].get(k, 0) for k in kinds),
        "events_validated": res["events"],
        "session_kinds": {k: res["by_kind"].get(k, 0) for k in kinds},
        "passes": res["passes"],
        "exhaustive": True,
        "rule": "TLC BFS of Codec.tla: every value within K single-position changes of the minimal instance of each root of each pass (passes: roots, K; variants from states of depth < KV); roots = 387 structures, 22 aliases, 69 requests, 69 responses, 26 notifications; every state replayed into the real converter as sessions and every event judged by CodecTrace.tla",
        "samples": [s for s in res["samples"] if s["sk"] in kinds][:3] or res["samples"][:1],
        "pipeline_wall_s": res["wall_s"], "pipeline_cached": res["cached"],
    })
    if extra_cov:
        rep.coverage.update(extra_cov)
    rep.assumptions = list(ASSUME)
    return rep


def replay(prop, path):
    """Re-run the recorded session of a replay file against the current tree and judge it again."""
    import json
    import os
    import subprocess
    doc = json.load(open(path, encoding="utf-8"))
    sess = doc["replay"]["session"]
    work = common.scratch("replay-")
    try:
        model = os.path.join(common.REPO, "generator", "lsp.json")
        code = ("import json,sys\nfrom harness import codec_driver\nr=codec_driver.Runner()\n"
                "s=r.rerun(json.load(open(sys.argv[1])))\n"
                "json.dump({'norm':codec_driver.norm_table(sys.argv[3]),'sessions':[s]},open(sys.argv[2],'w'))\nprint(len(s['ev']))")
        sp = os.path.join(work, "sess.json")
        tp = os.path.join(work, "trace.json")
        json.dump(sess, open(sp, "w"))
        renv = codec_check.pkg_env(os.path.join(common.REPO, "packages", "python"))
        renv["VERIF_CONV_CFG"] = sess.get("env", {}).get("cfg", "default")
        renv["PYTHONHASHSEED"] = sess.get("env", {}).get("hs", "0")
        if sess.get("env", {}).get("O"):
            renv["PYTHONOPTIMIZE"] = sess["env"]["O"]
        if sess.get("env", {}).get("W"):
            renv["PYTHONWARNINGS"] = sess["env"]["W"]
        p = subprocess.run([common.PY, "-c", code, sp, tp, model], cwd=common.VERIF, env=renv, stdout=subprocess.PIPE, stderr=subprocess.PIPE)
        if p.returncode != 0:
            raise common.MachineryError(p.stderr.decode()[-2000:])
        nev = int(p.stdout.decode().strip().splitlines()[-1])
        rc, out = common.run_tlc("CodecTrace", codec_check.trace_cfg(1, nev), env={"LSP_MODEL": model, "CODEC_TRACE": tp})
        if '"@DONE' not in out:
            raise common.MachineryError(out[-2000:])
        new = json.load(open(tp))["sessions"][0]
        bad = 0
        for f in common.tagged_lines(out, "@F"):
            ff = {"session": new, "l": f["l"], "c": sorted(f["c"]), "pos": sorted(f["pos"]) if f["pos"] else []}
            for clause in sorted(relevant(prop, ff)):
                bad += 1
                print("VIOLATION property=%s replay=%s  sig=%s" % (prop, path, json.dumps(signature(prop, clause, ff), sort_keys=True)))
        if not bad:
            print("replay of %s: the recorded session no longer violates %s" % (path, prop))
        return 1 if bad else 0
    finally:
        import shutil
        shutil.rmtree(work, ignore_errors=True)


def extra_C10(rep, tier):
    from . import check_image
    check_image.add_to(rep, "C10", check_image.run())


def extra_C13(rep, tier):
    from . import check_image
    check_image.add_to(rep, "C13", check_image.run())


VALIDATOR_DRIVER = r"""
import json, random, sys
from lsprotocol import validators, types
import attrs
from harness.pyside import enc_int
seed, n_random, out = int(sys.argv[1]), int(sys.argv[2]), sys.argv[3]
rnd = random.Random(seed)
class IntSub(int):
    pass
class NoName:
    def __str__(self):
        return "anonattr"
M = 2 ** 31
ints = [-M - 1, -M, -M + 1, -1, 0, 1, M - 2, M - 1, M, 2 ** 32, -2 ** 32, 2 ** 63, -2 ** 63, 10 ** 30, -10 ** 30]
# magnitudes at which int -> float and int -> str conversions of the interpreter give up (2^1024, 4300 digits)
ints += [2 ** 1023, 2 ** 1024, -2 ** 1024, 10 ** 400, 10 ** 4299, 10 ** 4300, -10 ** 4300, 10 ** 5000]
class BadFormat:
    def __format__(self, spec):
        raise RuntimeError("cannot format")
    __str__ = __repr__ = lambda self: (_ for _ in ()).throw(RuntimeError("cannot print"))
ints += [rnd.randint(-2 ** 33, 2 ** 33) for _ in range(n_random)] + [rnd.randint(-M - 3, -M + 3) for _ in range(20)] + [rnd.randint(M - 3, M + 3) for _ in range(20)]
weird = [None, True, False, 1.0, 0.5, float("nan"), float("inf"), "1", "", b"1", [1], (1,), {"a": 1}, object(), IntSub(5), IntSub(-1), IntSub(2 ** 31), BadFormat()]
def kind(v):
    if v is None: return "none"
    if isinstance(v, bool): return "bool"
    if type(v) is int: return "int"
    if isinstance(v, int): return "intsub"
    return type(v).__name__
events = []
attr_named = attrs.fields(types.Position).line
for fn_name in ("integer_validator", "uinteger_validator"):
    fn = getattr(validators, fn_name)
    for inst, attr, label in ((types.Position(line=0, character=0), attr_named, "Position.line"), (types.Position(line=0, character=0), NoName(), "Position.anonattr")):
        for v in ints + weird:
            ev = {"e": "Validate", "fn": fn_name, "pyk": kind(v), "n": enc_int(int(v)) if isinstance(v, int) else {"k": "null"}, "label": label}
            try:
                r = fn(inst, attr, v)
                ev["res"] = "true" if r is True else "false" if r is False else "other:return-" + type(r).__name__
                ev["named"] = False
            except ValueError as e:
                ev["res"] = "valueerror"
                ev["named"] = label in str(e)
            except BaseException as e:
                ev["res"] = "other:" + type(e).__name__
                ev["named"] = False
            events.append(ev)
sessions = [{"sid": 1, "sk": "validator", "root": {"kind": "structure", "name": "Position"}, "var": {"vk": "none", "name": ""}, "d": 0, "ev": events}]
json.dump({"norm": {}, "sessions": sessions}, open(out, "w"))
print(len(events))
"""


def extra_C12(rep, tier):
    """The two range validators called directly on arbitrary Python values (clauses V_total, V_named, V_range)."""
    import json
    import os
    import shutil
    import subprocess
    work = common.scratch("c12-")
    try:
        total = 0
        # the same calls in a plain interpreter and under python -O (assert statements removed)
        for mode, extra_env in (("plain", {}), ("-O", {"PYTHONOPTIMIZE": "1", "PYTHONHASHSEED": "3"})):
            tp = os.path.join(work, "trace-%s.json" % mode.strip("-"))
            env = codec_check.pkg_env(os.path.join(common.REPO, "packages", "python"))
            env.update(extra_env)
            p = subprocess.run([common.PY, "-c", VALIDATOR_DRIVER, str(common.seed()), "200" if tier == "quick" else "5000", tp], cwd=common.VERIF,
                               env=env, stdout=subprocess.PIPE, stderr=subprocess.PIPE)
            if p.returncode != 0:
                raise common.MachineryError("validator driver failed:\n" + p.stderr.decode()[-2000:])
            nev = int(p.stdout.decode().strip().splitlines()[-1])
            rc, out = common.run_tlc("CodecTrace", codec_check.trace_cfg(1, nev), env={"LSP_MODEL": os.path.join(common.REPO, "generator", "lsp.json"), "CODEC_TRACE": tp}, heap="3g")
            if '"@DONE' not in out:
                raise common.MachineryError("CodecTrace.tla did not consume the validator trace:\n" + out[-2000:])
            evs = json.load(open(tp))["sessions"][0]["ev"]
            for f in common.tagged_lines(out, "@F"):
                ev = evs[f["l"] - 1]
                for clause in f["c"]:
                    rep.violation({"clause": clause, "fn": ev["fn"], "pyk": ev["pyk"], "res": ev["res"], "interpreter": mode}, ev)
            total += nev
        rep.coverage["validator_calls_validated"] = total
        rep.coverage["traces_validated_against_impl"] = rep.coverage.get("traces_validated_against_impl", 0) + 2
    finally:
        shutil.rmtree(work, ignore_errors=True)


def observed_sessions(rep, prop):
    """Code -> spec on the inputs the repository's own tests already use: the test-suite is run with
    a recording pytest plugin (no source hook) and every top-level structure / unstructure call is
    judged by CodecTrace.tla (session kind "observed")."""
    import json
    import os
    import shutil
    import subprocess
    work = common.scratch("observed-")
    try:
        evp = os.path.join(work, "events.json")
        env = dict(os.environ, PYTHONPATH=common.VERIF, VERIF_TRACE_OUT=evp, PYTHONDONTWRITEBYTECODE="1", PYTHONHASHSEED="0")
        subprocess.run([common.PY, "-m", "pytest", "-q", "-p", "no:cacheprovider", "-p", "harness.pytest_recorder", "tests/python"],
                       cwd=common.REPO, env=env, stdout=subprocess.PIPE, stderr=subprocess.PIPE, timeout=900)
        if not os.path.exists(evp):
            raise common.MachineryError("the recording run of the repository's test-suite wrote no events")
        evs = json.load(open(evp, encoding="utf-8"))
        sessions = []
        i = 0
        while i < len(evs):
            e = evs[i]
            if e["e"] == "Structure" and e["root"]["kind"] != "unknown":
                ev1 = {"e": "Structure", "j": e["j"], "reqcls": e["cls"], "ok": e["ok"], "exc": e["exc"], "pos": "", "msg": "", "atunion": False, "p": e["p"]}
                evl = [ev1]
                if e["ok"] and i + 1 < len(evs) and evs[i + 1]["e"] == "Unstructure" and evs[i + 1]["oid"] == e["oid"]:
                    evl.append({"e": "Unstructure", "ok": True, "exc": "", "pos": "", "msg": "", "w": evs[i + 1]["w"]})
                    i += 1
                sessions.append({"sid": len(sessions) + 1, "sk": "observed", "root": e["root"], "var": {"vk": "none", "name": ""}, "d": 0, "ev": evl, "test": e["test"]})
            i += 1
        if not sessions:
            raise common.MachineryError("no structure call of a protocol class was observed in the test-suite")
        from .codec_driver import norm_table
        model = os.path.join(common.REPO, "generator", "lsp.json")
        tp = os.path.join(work, "trace.json")
        json.dump({"norm": norm_table(model), "sessions": sessions}, open(tp, "w"), ensure_ascii=False)
        nev = sum(len(s["ev"]) for s in sessions)
        rc, out = common.run_tlc("CodecTrace", codec_check.trace_cfg(len(sessions), nev), env={"LSP_MODEL": model, "CODEC_TRACE": tp}, heap="3g")
        if '"@DONE' not in out:
            raise common.MachineryError("CodecTrace.tla did not consume the observed sessions:\n" + out[-2500:])
        want = {"C01": {"S_ok", "U_lossless"}, "C03": {"S_typed"}}[prop]
        by = {s["sid"]: s for s in sessions}
        for f in common.tagged_lines(out, "@F"):
            s = by[f["sid"]]
            for clause in sorted(set(f["c"]) & want):
                pos = min(f["pos"]) if f["pos"] else "%s:%s" % (s["root"]["kind"], s["root"]["name"])
                rep.violation({"clause": clause, "pos": pos, "exc": s["ev"][f["l"] - 1].get("exc", ""), "observed_in": s["test"].split("::")[0]},
                              {"session": s, "failing_event": f["l"], "clauses": f["c"], "positions": f["pos"]})
        rep.coverage["test_suite_calls_validated"] = nev
        rep.coverage["test_suite_sessions"] = len(sessions)
        rep.coverage["traces_validated_against_impl"] = rep.coverage.get("traces_validated_against_impl", 0) + len(sessions)
    finally:
        shutil.rmtree(work, ignore_errors=True)


def extra_C01(rep, tier):
    observed_sessions(rep, "C01")


def extra_C03(rep, tier):
    observed_sessions(rep, "C03")
