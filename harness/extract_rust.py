"""Projection of the generated Rust source (lib.rs) to an 'image' document for RustImage.tla.

A tokenizer + small recursive-descent parser for the regular subset of Rust the plugin emits:
items (struct / enum / type alias / impl) with their attributes, fields with parsed TYPE TERMS,
enum variants with payloads / discriminants, and the integer arms of the hand-generated
Serialize / Deserialize impls.  The serde naming rule (explicit rename, else the struct's
rename_all = "camelCase" applied to the field identifier) is part of this projection because
that is how C07 defines the observation.
"""
import json
import re
import sys

TOKEN_RE = re.compile(r"""
    (?P<ws>\s+)
  | (?P<comment>//[^\n]*)
  | (?P<str>"(?:[^"\\]|\\.)*")
  | (?P<life>'[A-Za-z_][A-Za-z0-9_]*(?!'))
  | (?P<num>-?\d+)
  | (?P<ident>[A-Za-z_][A-Za-z0-9_]*)
  | (?P<op>::|=>|->|[#\[\](){}<>,;:=&?!|.*+\-/@'])
""", re.X)


def tokenize(src):
    toks = []
    pos = 0
    while pos < len(src):
        m = TOKEN_RE.match(src, pos)
        if not m:
            raise ValueError("cannot tokenize at %d: %r" % (pos, src[pos:pos + 40]))
        pos = m.end()
        k = m.lastgroup
        if k in ("ws", "comment"):
            continue
        toks.append((k, m.group(k)))
    return toks


class P:
    def __init__(self, toks):
        self.t = toks
        self.i = 0

    def peek(self, off=0):
        return self.t[self.i + off] if self.i + off < len(self.t) else ("eof", "")

    def next(self):
        tok = self.peek()
        self.i += 1
        return tok

    def accept(self, val):
        if self.peek()[1] == val:
            self.i += 1
            return True
        return False

    def expect(self, val):
        tok = self.next()
        if tok[1] != val:
            raise ValueError("expected %r, got %r at token %d (%s)" % (val, tok, self.i, " ".join(x[1] for x in self.t[max(0, self.i - 8):self.i + 4])))
        return tok

    def balanced(self, open_, close):
        """Consume a balanced group (the opening token already consumed); return the inner tokens."""
        depth, out = 1, []
        while True:
            tok = self.next()
            if tok[0] == "eof":
                raise ValueError("unbalanced " + open_)
            if tok[1] == open_:
                depth += 1
            elif tok[1] == close:
                depth -= 1
                if depth == 0:
                    return out
            out.append(tok)

    def attrs(self):
        """#[...] attributes -> list of raw token strings per attribute."""
        out = []
        while self.peek()[1] == "#":
            self.next()
            self.accept("!")
            self.expect("[")
            out.append([x[1] for x in self.balanced("[", "]")])
        return out

    def type_term(self):
        tok = self.peek()
        if tok[1] == "(":
            self.next()
            items = []
            while not self.accept(")"):
                items.append(self.type_term())
                self.accept(",")
            return {"c": "(tuple)", "a": items}
        if tok[1] == "&":
            self.next()
            if self.peek()[0] == "life":
                self.next()
            return self.type_term()
        path = [self.next()[1]]
        while self.accept("::"):
            path.append(self.next()[1])
        name = "::".join(path)
        args = []
        if self.accept("<"):
            while not self.accept(">"):
                if self.peek()[0] == "life":
                    self.next()
                else:
                    args.append(self.type_term())
                self.accept(",")
        if name == "Box" and len(args) == 1:      # Box<T> is transparent for serde
            return args[0]
        return {"c": name, "a": args}


def serde_info(attrs):
    info = {"rename": "", "rename_all": "", "untagged": False, "skip_none": False, "gated": False, "deprecated": False,
            "derives_serde": False, "deny_unknown": False}
    for a in attrs:
        if not a:
            continue
        if a[0] == "cfg":
            if "feature" in a and '"proposed"' in a:
                info["gated"] = True
        elif a[0] == "deprecated":
            info["deprecated"] = True
        elif a[0] == "derive":
            info["derives_serde"] = "Serialize" in a and "Deserialize" in a
        elif a[0] == "serde":
            for i, tok in enumerate(a):
                if tok == "rename" and a[i + 1] == "=":
                    info["rename"] = json.loads(a[i + 2])
                elif tok == "rename_all" and a[i + 1] == "=":
                    info["rename_all"] = json.loads(a[i + 2])
                elif tok == "untagged":
                    info["untagged"] = True
                elif tok == "deny_unknown_fields":
                    info["deny_unknown"] = True
                elif tok == "skip_serializing_if":
                    info["skip_none"] = True
    return info


def camel(ident):
    """serde's rename_all = "camelCase" applied to a snake_case field identifier."""
    parts = ident.split("_")
    out = ""
    first = True
    for p in parts:
        if not p:
            continue
        out += p if first else p[:1].upper() + p[1:]
        first = False
    return out


def parse(src):
    p = P(tokenize(src))
    img = {"structs": {}, "enums": {}, "aliases": {}, "order": [], "impls": {}}
    while p.peek()[0] != "eof":
        attrs = p.attrs()
        info = serde_info(attrs)
        tok = p.next()
        if tok[1] == "use":
            while p.next()[1] != ";":
                pass
            continue
        if tok[1] == "pub":
            tok = p.next()
        if tok[1] == "struct":
            name = p.next()[1]
            if p.accept("<"):
                p.balanced("<", ">")
            fields = []
            if p.accept(";"):
                pass
            else:
                p.expect("{")
                while not p.accept("}"):
                    fa = serde_info(p.attrs())
                    p.accept("pub")
                    ident = p.next()[1]
                    p.expect(":")
                    ty = p.type_term()
                    p.accept(",")
                    raw = ident[2:] if ident.startswith("r#") else ident
                    sname = fa["rename"] or (camel(raw) if info["rename_all"] == "camelCase" else raw)
                    fields.append({"ident": ident, "serde_name": sname, "rename": fa["rename"], "ty": ty, "gated": fa["gated"], "skip_none": fa["skip_none"]})
            img["structs"][name] = {"gated": info["gated"], "rename_all": info["rename_all"], "derives_serde": info["derives_serde"], "fields": fields}
            img["order"].append(name)
        elif tok[1] == "enum":
            name = p.next()[1]
            if p.accept("<"):
                p.balanced("<", ">")
            p.expect("{")
            variants = []
            while not p.accept("}"):
                va = serde_info(p.attrs())
                vname = p.next()[1]
                payload, disc = [], ""
                if p.accept("("):
                    while not p.accept(")"):
                        payload.append(p.type_term())
                        p.accept(",")
                elif p.accept("{"):
                    p.balanced("{", "}")
                if p.accept("="):
                    disc = p.next()[1]
                p.accept(",")
                variants.append({"name": vname, "rename": va["rename"], "disc": disc, "payload": payload, "gated": va["gated"]})
            img["enums"][name] = {"gated": info["gated"], "untagged": info["untagged"], "derives_serde": info["derives_serde"], "variants": variants}
            img["order"].append(name)
        elif tok[1] == "type":
            name = p.next()[1]
            p.expect("=")
            ty = p.type_term()
            p.expect(";")
            img["aliases"][name] = {"gated": info["gated"], "ty": ty}
            img["order"].append(name)
        elif tok[1] == "impl":
            # impl [<..>] Trait[<..>] for Type { ... }  -> collect integer arms of match blocks
            head = []
            while p.peek()[1] != "{":
                head.append(p.next()[1])
            p.next()
            body = p.balanced("{", "}")
            target = head[-1]
            kind = "ser" if "Serialize" in head else "de" if "Deserialize" in head else "other"
            vals = [x[1] for x in body]
            arms = []
            for i, v in enumerate(vals):
                if v == "=>":
                    if kind == "ser":
                        # Type :: Variant => serializer . serialize_i32 ( N )
                        if i >= 1 and "(" in vals[i:i + 8]:
                            j = i + vals[i:i + 8].index("(")
                            num = vals[j + 1]
                            if re.fullmatch(r"-?\d+", num) and i >= 1:
                                arms.append([vals[i - 1], int(num)])
                            elif num == "-" and re.fullmatch(r"\d+", vals[j + 2]):
                                arms.append([vals[i - 1], -int(vals[j + 2])])
                    elif kind == "de":
                        # N => Ok ( Type :: Variant )
                        num = vals[i - 1]
                        neg = i >= 2 and vals[i - 2] == "-"
                        if re.fullmatch(r"-?\d+", num) and "Ok" in vals[i:i + 3]:
                            j = i + vals[i:i + 10].index(")")
                            arms.append([vals[j - 1], -int(num) if neg else int(num)])
            img["impls"].setdefault(target, {})[kind] = arms
        else:
            raise ValueError("unexpected item start %r at token %d" % (tok, p.i))
    img["resp_name"] = {n: n[:-len("Request")] + "Response" for n in img["structs"] if n.endswith("Request")}
    return img


def main(argv):
    img = parse(open(argv[1], encoding="utf-8").read())
    json.dump(img, open(argv[2], "w"))
    print(json.dumps({"structs": len(img["structs"]), "enums": len(img["enums"]), "aliases": len(img["aliases"]), "impls": len(img["impls"])}))


if __name__ == "__main__":
    main(sys.argv)
