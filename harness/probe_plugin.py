"""A generator plugin that only observes: `python -m generator --plugin harness.probe_plugin`
hands it the very LSPModel the CLI built.  It writes the model's content back as JSON to
$PROBE_OUT (absent optional fields are omitted, the generated id_ is dropped) and so also records
that a plugin was invoked at all."""
import json
import os

import attrs


def readback(v):
    if attrs.has(type(v)):
        out = {}
        for a in attrs.fields(type(v)):
            if a.name == "id_":
                continue
            val = getattr(v, a.name)
            if val is None:
                continue
            out[a.name] = readback(val)
        return out
    if isinstance(v, (list, tuple)):
        return [readback(x) for x in v]
    if isinstance(v, dict):
        return {k: readback(x) for k, x in v.items()}
    return v


def generate(spec, output_dir, test_dir):
    path = os.environ.get("PROBE_OUT")
    if path:
        with open(path, "w", encoding="utf-8") as f:
            json.dump({"invoked": True, "model": readback(spec)}, f)
