"""Entry point of every registered check: python -m harness.main <Cnn> [--tier t] [--replay p]."""
import os
import sys
import traceback

from . import common


def dispatch(prop, tier, replay):
    if replay and prop not in ("C01", "C02", "C03", "C10", "C11", "C12", "C13", "C14", "C15"):
        # the non-codec checks are cheap and self-contained: a replay shows the recorded case and
        # re-runs the check, which reports the violation again if it is still there
        try:
            import json
            doc = json.load(open(replay))
            print("recorded case: sig=%s occurrences=%s" % (json.dumps(doc.get("sig")), doc.get("occurrences")))
        except Exception as e:  # noqa: BLE001
            print("cannot read replay file %s: %s" % (replay, e))
        replay = None
    if prop in ("C01", "C02", "C03", "C10", "C11", "C12", "C13", "C14", "C15"):
        from . import checks_codec
        if replay:
            return checks_codec.replay(prop, replay)
        extra = getattr(checks_codec, "extra_" + prop, None)
        rep = checks_codec.check(prop, tier)
        if extra:
            extra(rep, tier)
        return rep.finish()
    if prop in ("C04", "C09"):
        from . import check_image
        return check_image.check(prop, tier).finish()
    if prop == "C06":
        from . import check_c06
        return check_c06.check(tier).finish()
    if prop == "C07":
        from . import check_srcimage
        return check_srcimage.check_c07(tier).finish()
    if prop == "C08":
        from . import check_srcimage
        return check_srcimage.check_c08(tier).finish()
    if prop == "C16":
        from . import check_gen
        return check_gen.check_c16(tier).finish()
    if prop == "C05":
        from . import check_gen
        return check_gen.check_c05(tier).finish()
    if prop == "C17":
        from . import check_c17
        return check_c17.check(tier).finish()
    if prop == "C18":
        from . import check_c18
        return check_c18.check(tier).finish()
    if prop == "C19":
        from . import check_c19
        return check_c19.check(tier).finish()
    if prop == "C20":
        from . import check_c20
        return check_c20.check(tier).finish()
    raise common.MachineryError("no check registered for %s" % prop)


def main(argv):
    if len(argv) < 2:
        print("usage: check <property id> [--tier quick|thorough] [--replay <path>]")
        return 2
    prop = argv[1]
    tier = os.environ.get("VERIF_TIER", "quick")
    replay = None
    i = 2
    while i < len(argv):
        if argv[i] == "--tier":
            tier = argv[i + 1]
            i += 2
        elif argv[i] == "--replay":
            replay = argv[i + 1]
            i += 2
        else:
            i += 1
    if tier not in ("quick", "thorough"):
        tier = "quick"
    try:
        return dispatch(prop, tier, replay)
    except common.MachineryError as e:
        print("MACHINERY FAILURE: %s" % e)
        return 2
    except Exception:
        traceback.print_exc()
        print("MACHINERY FAILURE: unexpected exception")
        return 2


if __name__ == "__main__":
    sys.exit(main(sys.argv))
