"""One execution for C19, in a fresh interpreter (the once-flag is process state).

  python -m harness.c19_child sched  <schedule.json> <battery.json>   forced thread schedule
  python -m harness.c19_child hist   <history.json>  <battery.json>   single-thread creation history
  python -m harness.c19_child stress <n threads>     <battery.json>   free-running threads, tiny switch interval

Prints one JSON line: {"events": [...], "forced": n, "deviated": n, ...}.  Events are what
ConverterHistory.tla validates: Create(conv, cfg, ok, exc) and Probe(conv, input, res).

The scheduler needs no source hook: a per-thread sys.settrace function parks the thread at
yield points inside lsprotocol/_hooks.py, identified by function name and source text, never
by line number:
   phase 0  call of _resolve_forward_references
   phase 1  k-th call of the _filter closure (the dict iteration)
   phase 2  k-th execution of the line that calls attrs.resolve_types
   phase 3  the line that sets the once-flag
   phase 4  call of _register_capabilities_hooks (hook registration on the caller's converter)
"""
import hashlib
import json
import linecache
import sys
import threading
import time

PARK_TIMEOUT = 0.25


def probe(conv, types, battery):
    """input index -> result string (the observable compared across converters)."""
    out, kinds = [], []
    for item in battery:
        if item.get("kind") in ("request", "response"):
            tup = types.METHOD_TO_TYPES.get(item["cls"])
            cls = tup[0 if item["kind"] == "request" else 1] if tup else None
        elif item.get("kind") == "notification":
            tup = types.METHOD_TO_TYPES.get(item["cls"])
            cls = tup[0] if tup else None
        else:
            cls = getattr(types, item["cls"], None)
        if cls is None:
            out.append("nocls")
            kinds.append("")
            continue
        try:
            obj = conv.structure(item["j"], cls)
            w = json.dumps(conv.unstructure(obj, cls), sort_keys=True)
            out.append("ok:" + hashlib.sha1((repr(obj) + "|" + w).encode()).hexdigest()[:12])
        except BaseException as e:  # noqa: BLE001
            if isinstance(e, (KeyboardInterrupt, SystemExit)):
                raise
            # detailed validation wraps errors in exception groups: the class name is part of the
            # observable behaviour of a configuration, the text is not
            out.append("error")
            kinds.append(type(e).__name__)
            continue
        kinds.append("")
    return out, kinds


def probe_events(name, cc, conv, types, battery):
    res, kinds = probe(conv, types, battery)
    return [{"e": "Probe", "conv": name, "cc": cc, "input": i, "acc": r != "error",
             "res": r if r != "error" else "error:" + kinds[i]} for i, r in enumerate(res)]


DROPPED = set()      # addresses of user-supplied converters that have been released


def alloc(factory):
    """A new user-supplied converter.  Where the object lands is the allocator's choice; like the thread
    scheduler it is steered towards the interesting case: an address a released converter lived at
    (blank instances of the class walk the allocator's free list until such an address comes up; it is
    released again right before the real converter is created)."""
    if not DROPPED:
        return factory()
    import cattrs
    keep = []
    try:
        for _ in range(20000):
            o = object.__new__(cattrs.Converter)
            if id(o) in DROPPED:
                del o
                return factory()
            keep.append(o)
    finally:
        del keep[:]
    return factory()


def make(cfg, pool):
    """Create a converter as the configuration says; pool holds user-supplied converters."""
    import cattrs
    from lsprotocol import converters
    if cfg == "fresh":
        return converters.get_converter()
    if cfg == "user":
        c = alloc(cattrs.Converter)
        pool.append(c)
        return converters.get_converter(c)
    if cfg == "user_omit":
        c = alloc(lambda: cattrs.Converter(omit_if_default=True))
        pool.append(c)
        return converters.get_converter(c)
    if cfg == "user_nodetail":
        c = alloc(lambda: cattrs.Converter(detailed_validation=False))
        pool.append(c)
        return converters.get_converter(c)
    if cfg == "user_hook":
        from lsprotocol import types
        c = alloc(cattrs.Converter)
        c.register_unstructure_hook(types.Position, lambda p: {"line": p.line, "character": p.character, "userHook": True})
        pool.append(c)
        return converters.get_converter(c)
    if cfg == "deep":
        raise ValueError("deep is a sweep, handled by run_hist")
    if cfg == "same_again":
        if not pool:
            c = alloc(cattrs.Converter)
            pool.append(c)
        return converters.get_converter(pool[-1])
    raise ValueError(cfg)


class Scheduler:
    def __init__(self, names, nfilter, nres):
        self.cv = threading.Condition()
        self.grant = {n: (-1, 0) for n in names}       # last yield point the thread may pass
        self.parked = {n: None for n in names}         # yield point the thread is parked before
        self.finished = {n: False for n in names}
        self.counts = {n: {1: 0, 2: 0} for n in names}
        self.free = False
        self.nfilter, self.nres = nfilter, nres

    def tracer(self, name):
        sched = self

        state = {"flag_passed": False, "after_flag_seen": False}

        def local(frame, event, arg):
            code = frame.f_code
            if code.co_name != "_resolve_forward_references":
                return local
            if event in ("line", "return") and state["flag_passed"] and not state["after_flag_seen"]:
                # the very next thing this thread does after publishing the flag, whatever it is: the window in which
                # other threads already take the fast path while this one may still have work to do
                state["after_flag_seen"] = True
                sched.arrive(name, (3, 1))
            if event == "line":
                src = linecache.getline(code.co_filename, frame.f_lineno)
                if "resolve_types(" in src:
                    sched.counts[name][2] += 1
                    sched.arrive(name, (2, sched.counts[name][2]))
                elif "_resolved_forward_references = True" in src:
                    sched.arrive(name, (3, 0))
                    state["flag_passed"] = True
            return local

        def glob(frame, event, arg):
            code = frame.f_code
            if not code.co_filename.endswith("_hooks.py"):
                return None
            if event == "call":
                if code.co_name == "_resolve_forward_references":
                    sched.arrive(name, (0, 0))
                    return local
                if code.co_name == "_filter":
                    sched.counts[name][1] += 1
                    sched.arrive(name, (1, sched.counts[name][1]))
                    return None
                if code.co_name == "_register_capabilities_hooks":
                    sched.arrive(name, (4, 0))
                    return None
            return None
        return glob

    def arrive(self, name, point):
        with self.cv:
            while not self.free and point > self.grant[name]:
                self.parked[name] = point
                self.cv.notify_all()
                self.cv.wait()
            self.parked[name] = None

    def step(self, name, grant):
        """Let thread `name` pass every yield point <= grant; wait until it parks again or ends.
        Returns False when it did neither in time (it is blocked, e.g. on a lock)."""
        with self.cv:
            if grant > self.grant[name]:
                self.grant[name] = grant
            self.cv.notify_all()
            deadline = time.time() + PARK_TIMEOUT
            while True:
                p = self.parked[name]
                if self.finished[name] or (p is not None and p > self.grant[name]):
                    return True
                left = deadline - time.time()
                if left <= 0:
                    return False
                self.cv.wait(left)

    def release_all(self):
        with self.cv:
            self.free = True
            self.cv.notify_all()


def run_sched(schedule, battery):
    from lsprotocol import types
    import attrs
    names = sorted({s["t"] for s in schedule})
    nfilter = len(types.ALL_TYPES_MAP)
    nres = len([v for v in types.ALL_TYPES_MAP.values() if isinstance(v, type) and attrs.has(v)])
    kitems = max(1, max(len([s for s in schedule if s["t"] == n and s["a"] == "IterStep"]) for n in names))
    ncls = max(1, max(len([s for s in schedule if s["t"] == n and s["a"] == "ResolveStep"]) for n in names))
    sch = Scheduler(names, nfilter, nres)
    results = {}

    early = {}

    def body(name):
        sys.settrace(sch.tracer(name))
        try:
            from lsprotocol import converters
            conv = converters.get_converter()
            results[name] = ("ok", conv)
            # use the converter at once, while other threads may still be inside their first call
            early[name] = probe_events(name, "d", conv, types, battery[:60])
        except BaseException as e:  # noqa: BLE001
            results.setdefault(name, ("error", type(e).__name__ + ": " + str(e)[:120]))
        finally:
            sys.settrace(None)
            with sch.cv:
                sch.finished[name] = True
                sch.cv.notify_all()

    threads = {n: threading.Thread(target=body, args=(n,), daemon=True) for n in names}
    for t in threads.values():
        t.start()
    it = {n: 0 for n in names}
    rs = {n: 0 for n in names}
    forced = deviated = 0
    for s in schedule:
        n, a = s["t"], s["a"]
        if sch.finished[n]:
            deviated += 1
            continue
        if a == "Enter":
            g = (0, 0)
        elif a == "IterStep":
            it[n] += 1
            g = (1, -(-it[n] * nfilter // kitems))
        elif a == "ResolveStep":
            rs[n] += 1
            g = (2, -(-rs[n] * nres // ncls))
        elif a == "SetFlag":
            g = (3, 0)
        elif a == "Hooks":
            g = (4, 0)
        else:                       # Acquire / Release have no yield point of their own
            g = sch.grant[n]
        if sch.step(n, g):
            forced += 1
        else:
            deviated += 1
    sch.release_all()
    for t in threads.values():
        t.join(120)
    events = []
    for n in names:
        kind, val = results.get(n, ("error", "thread did not finish"))
        events.append({"e": "Create", "conv": n, "cfg": "fresh", "ok": kind == "ok", "exc": "" if kind == "ok" else val})
    for n in names:
        events.extend(early.get(n, []))
    for n in names:
        kind, val = results.get(n, ("error", ""))
        if kind == "ok":
            events.extend(probe_events(n, "d", val, types, battery))
    return {"events": events, "forced": forced, "deviated": deviated, "nfilter": nfilter, "nres": nres}


def deep_sweep():
    """-> [(ok, converter or None, exception name)] for get_converter() at 4, 8, ... frames of head room."""
    from lsprotocol import converters
    out = []
    limit = sys.getrecursionlimit()

    def descend(n):
        if n <= 0:
            return converters.get_converter()
        return descend(n - 1)

    def depth_now():
        f, d = sys._getframe(), 0
        while f is not None:
            d += 1
            f = f.f_back
        return d
    succeeded = 0
    for room in range(4, 200, 3):
        try:
            conv = descend(limit - depth_now() - room)
            out.append((True, conv, ""))
            succeeded += 1
            if succeeded >= 2:
                break
        except RecursionError:
            out.append((False, None, "RecursionError"))
        except BaseException as e:  # noqa: BLE001
            out.append((False, None, type(e).__name__))
    return out


def run_hist(history, battery):
    import gc
    from lsprotocol import types
    pool, convs, events = [], [], []
    c = None
    for i, cfg in enumerate(history):
        name = "c%d" % (i + 1)
        if cfg == "drop":
            # every converter created so far becomes garbage (later objects may well live at the same addresses)
            DROPPED.update(id(c) for c in pool)
            del convs[:]
            del pool[:]
            conv = c = None        # the loop variable of the probing loop below still names the last converter
            gc.collect()
            events.append({"e": "Drop", "conv": name, "cfg": cfg, "ok": True, "exc": ""})
            continue
        if cfg == "deep":
            # get_converter() called with very little stack left, again and again with a little more: each call may die
            # of RecursionError anywhere inside the package (an environment fault, not a verdict) - what matters is
            # what every LATER converter does
            for k, (ok, c2, exc) in enumerate(deep_sweep()):
                nm = "%s.%d" % (name, k)
                events.append({"e": "Create", "conv": nm, "cfg": "deep", "ok": ok, "exc": exc, "env_fault": not ok})
                if ok:
                    convs.append((nm, c2, "d"))
            c2 = None
            for cname, c, cc in convs:
                events.extend(probe_events(cname, cc, c, types, battery))
            continue
        try:
            prev = {id(c): cc for _, c, cc in convs}
            conv = make(cfg, pool)
            cc = "n" if cfg == "user_nodetail" else "h" if cfg == "user_hook" else prev.get(id(conv), "d") if cfg == "same_again" else "d"
            convs.append((name, conv, cc))
            events.append({"e": "Create", "conv": name, "cfg": cfg, "ok": True, "exc": ""})
        except BaseException as e:  # noqa: BLE001
            events.append({"e": "Create", "conv": name, "cfg": cfg, "ok": False, "exc": type(e).__name__ + ": " + str(e)[:120]})
        conv = None
        for cname, c, cc in convs:      # creating one must not alter another: probe all, every time
            events.extend(probe_events(cname, cc, c, types, battery))
    return {"events": events, "forced": len(history), "deviated": 0}


def run_stress(nthreads, battery):
    sys.setswitchinterval(1e-6)
    from lsprotocol import types
    results, early = {}, {}
    start = threading.Barrier(nthreads)

    def body(name):
        try:
            start.wait()
            from lsprotocol import converters
            conv = converters.get_converter()
            results[name] = ("ok", conv)
            early[name] = probe_events(name, "d", conv, types, battery[:40])
        except BaseException as e:  # noqa: BLE001
            results[name] = ("error", type(e).__name__ + ": " + str(e)[:120])

    ts = [threading.Thread(target=body, args=("s%d" % i,), daemon=True) for i in range(nthreads)]
    for t in ts:
        t.start()
    for t in ts:
        t.join(240)
    events = []
    for i in range(nthreads):
        n = "s%d" % i
        kind, val = results.get(n, ("error", "thread did not finish"))
        events.append({"e": "Create", "conv": n, "cfg": "fresh", "ok": kind == "ok", "exc": "" if kind == "ok" else val})
        events.extend(early.get(n, []))
        if kind == "ok":
            events.extend(probe_events(n, "d", val, types, battery[:40]))
    return {"events": events, "forced": 0, "deviated": 0}


def run_shared(nthreads, battery):
    """ONE converter, created by the main thread, used by many threads at once while its dispatch caches are
    still cold (every hook function is generated on first use, possibly by several threads at the same time)."""
    sys.setswitchinterval(1e-6)
    from lsprotocol import converters, types
    events = []
    try:
        conv = converters.get_converter()
        events.append({"e": "Create", "conv": "shared", "cfg": "fresh", "ok": True, "exc": ""})
    except BaseException as e:  # noqa: BLE001
        events.append({"e": "Create", "conv": "shared", "cfg": "fresh", "ok": False, "exc": type(e).__name__ + ": " + str(e)[:120]})
        return {"events": events, "forced": 0, "deviated": 0}
    start = threading.Barrier(nthreads)
    got = {}

    def body(i):
        start.wait()
        # every thread walks the battery from another offset so that first uses collide on different classes
        k = (i * 7) % max(1, len(battery))
        order = list(range(k, len(battery))) + list(range(k))
        evs = probe_events("shared", "d", conv, types, [battery[j] for j in order])
        for e, j in zip(evs, order):
            e["input"] = j
        got[i] = evs

    ts = [threading.Thread(target=body, args=(i,), daemon=True) for i in range(nthreads)]
    for t in ts:
        t.start()
    for t in ts:
        t.join(240)
    for i in range(nthreads):
        events.extend(got.get(i, [{"e": "Create", "conv": "t%d" % i, "cfg": "fresh", "ok": False, "exc": "thread did not finish"}]))
    return {"events": events, "forced": 0, "deviated": 0}


def main(argv):
    mode = argv[1]
    battery = json.load(open(argv[3]))
    if mode == "sched":
        out = run_sched(json.load(open(argv[2])), battery)
    elif mode == "hist":
        out = run_hist(json.load(open(argv[2])), battery)
    elif mode == "shared":
        out = run_shared(int(argv[2]), battery)
    else:
        out = run_stress(int(argv[2]), battery)
    print(json.dumps(out))


if __name__ == "__main__":
    main(sys.argv)
