"""C20: Position / Range / Location comparison and repr, judged by PositionOrder.tla."""
import json
import os
import random
import subprocess
import sys

from . import common

GEN_CFG = "CONSTANTS NEvents = 0\nINIT Init\nNEXT Next\nINVARIANT Trichotomy\nINVARIANT Transitive\nINVARIANT EmitCase\nCHECK_DEADLOCK FALSE\n"

DRIVER = r'''
import json, sys, operator
from lsprotocol import types as t

def pos(p): return t.Position(line=p[0], character=p[1])
def rng(r): return t.Range(start=pos(r[0]), end=pos(r[1]))
def loc(l): return t.Location(uri=l["uri"], range=rng(l["r"]))
class PositionLike:
    line = 0
    character = 0
class RangeLike:
    start = t.Position(line=0, character=0)
    end = t.Position(line=0, character=0)
class LocationLike:
    uri = "u"
    range = t.Range(start=t.Position(line=0, character=0), end=t.Position(line=0, character=0))
FOREIGN = {"int": 3, "str": "0:0", "none": None, "tuple": (0, 0), "float": 1.5, "dict": {"line": 0, "character": 0},
           "position-like": PositionLike(), "range-like": RangeLike(), "location-like": LocationLike(), "pos": pos((0, 0)), "range": rng(((0, 0), (0, 0))), "loc": loc({"uri": "u", "r": ((0, 0), (0, 0))})}
OPS = {"lt": operator.lt, "le": operator.le, "gt": operator.gt, "ge": operator.ge, "eq": operator.eq, "ne": operator.ne}
def run(op, a, b):
    try:
        r = OPS[op](a, b)
    except TypeError:
        return "TypeError"
    except Exception as e:
        return "Other:" + type(e).__name__
    return "T" if r is True else "F" if r is False else "NonBool:" + repr(r)
out = []
for c in json.load(open(sys.argv[1])):
    ev = dict(c)
    if c["k"] == "pos":
        a, b = pos(c["pa"]), pos(c["pb"])
        for op in OPS: ev[op] = run(op, a, b)
        ev["repr"] = repr(a)
    elif c["k"] == "range":
        a, b = rng(c["ra"]), rng(c["rb"])
        for op in ("eq", "ne"): ev[op] = run(op, a, b)
        ev["repr"] = repr(a)
    elif c["k"] == "loc":
        a, b = loc(c["la"]), loc(c["lb"])
        for op in ("eq", "ne"): ev[op] = run(op, a, b)
        ev["repr"] = repr(a)
    else:
        a = FOREIGN[c["fk"]]
        b = FOREIGN[c["other"]]
        for op in OPS: ev[op] = run(op, a, b)
    out.append(ev)
json.dump(out, open(sys.argv[2], "w"))
'''


MACHINE = r'''
import json, sys, operator
from lsprotocol import types as t
OPS = {"lt": operator.lt, "le": operator.le, "gt": operator.gt, "ge": operator.ge, "eq": operator.eq, "ne": operator.ne}
def run(op, a, b):
    try:
        r = OPS[op](a, b)
    except Exception as e:
        return "Other:" + type(e).__name__
    return "T" if r is True else "F" if r is False else "NonBool:" + repr(r)
def rp(x):
    try:
        return repr(x)
    except Exception as e:
        return "Other:" + type(e).__name__
runs = []
for h in json.load(open(sys.argv[1])):
    init = h["init"]
    p = {1: t.Position(line=init[0][0], character=init[0][1]), 2: t.Position(line=init[1][0], character=init[1][1])}
    # built once: they hold references to the two objects
    r12, r21 = t.Range(start=p[1], end=p[2]), t.Range(start=p[2], end=p[1])
    snap = t.Range(start=t.Position(line=init[0][0], character=init[0][1]), end=t.Position(line=init[1][0], character=init[1][1]))
    l12, lsnap, lother = t.Location(uri="file:///a", range=r12), t.Location(uri="file:///a", range=snap), t.Location(uri="file:///b", range=r12)
    evs = []
    for act in h["hist"]:
        ev = dict(act)
        if act["a"] == "set":
            try:
                setattr(p[act["o"]], act["f"], act["v"])
                ev["ok"] = True
            except Exception as e:
                ev["ok"] = False
        elif act["a"] == "cmp":
            a, b = p[act["o"]], p[act["p"]]
            for op in OPS: ev[op] = run(op, a, b)
            ev["ra"], ev["rb"] = rp(a), rp(b)
        else:
            x, y = {"swap": (r12, r21), "snap": (r12, snap), "loc": (l12, lsnap)}[act["w"]]
            ev["eq"], ev["ne"] = run("eq", x, y), run("ne", x, y)
            ev["other"] = run("eq", l12, lother) if act["w"] == "loc" else "F"
            ev["repr"] = rp(x)
        evs.append(ev)
    runs.append({"init": init, "events": evs})
json.dump(runs, open(sys.argv[2], "w"))
'''


INTER = r'''
import json, sys, threading, operator
from lsprotocol import types as t
at = int(sys.argv[1])
OPS = {"lt": operator.lt, "le": operator.le, "gt": operator.gt, "ge": operator.ge, "eq": operator.eq, "ne": operator.ne}
def run(op, a, b):
    try:
        r = OPS[op](a, b)
    except Exception as e:
        return "Other:" + type(e).__name__
    return "T" if r is True else "F" if r is False else "NonBool:" + repr(r)
paused, resume = threading.Event(), threading.Event()
count = [0]
def tracer(frame, event, arg):
    if not frame.f_code.co_filename.endswith("types.py"):
        return None
    def local(frame, event, arg):
        if event == "line":
            count[0] += 1
            if count[0] == at:
                paused.set()
                resume.wait(10)
        return local
    return local
def pos(p): return t.Position(line=p[0], character=p[1])
def rng(r): return t.Range(start=pos(r[0]), end=pos(r[1]))
def first():
    # the FIRST comparisons of the three classes in this process, suspended after the at-th line of types.py
    a, b = pos((1, 5)), pos((1, 3))
    ra, rb = rng(((0, 0), (0, 1))), rng(((0, 0), (1, 0)))
    sys.settrace(tracer)
    try:
        a > b
        ra == rb
        t.Location(uri="file:///a", range=ra) == t.Location(uri="file:///a", range=rb)
    except Exception:
        pass
    finally:
        sys.settrace(None)
        paused.set()
th = threading.Thread(target=first, daemon=True)
th.start()
paused.wait(10)
out = []
for c in json.load(open(sys.argv[2])):
    ev = dict(c)
    if c["k"] == "pos":
        a, b = pos(c["pa"]), pos(c["pb"])
        for op in OPS: ev[op] = run(op, a, b)
        ev["repr"] = repr(a)
    elif c["k"] == "range":
        a, b = rng(c["ra"]), rng(c["rb"])
        for op in ("eq", "ne"): ev[op] = run(op, a, b)
        ev["repr"] = repr(a)
    else:
        a = t.Location(uri=c["la"]["uri"], range=rng(c["la"]["r"]))
        b = t.Location(uri=c["lb"]["uri"], range=rng(c["lb"]["r"]))
        for op in ("eq", "ne"): ev[op] = run(op, a, b)
        ev["repr"] = repr(a)
    out.append(ev)
resume.set()
th.join(10)
json.dump(out, open(sys.argv[3], "w"))
'''

INTER_CASES = [{"k": "pos", "pa": [1, 5], "pb": [1, 3]}, {"k": "pos", "pa": [0, 1], "pb": [1, 0]}, {"k": "pos", "pa": [2, 2], "pb": [2, 2]},
               {"k": "range", "ra": [[0, 0], [0, 1]], "rb": [[0, 0], [1, 0]]}, {"k": "range", "ra": [[0, 0], [0, 1]], "rb": [[0, 0], [0, 1]]},
               {"k": "loc", "la": {"uri": "file:///a", "r": [[0, 0], [0, 1]]}, "lb": {"uri": "file:///a", "r": [[0, 0], [1, 0]]}},
               {"k": "loc", "la": {"uri": "file:///a", "r": [[0, 0], [0, 1]]}, "lb": {"uri": "file:///b", "r": [[0, 0], [0, 1]]}}]


def interleaved(rep, tier, work):
    """A second thread compares while the FIRST comparison of the process is suspended after its k-th line of types.py
    (whatever the classes prepare lazily on first use is then half done); judged by PositionOrder.tla like any case."""
    import concurrent.futures as cf
    n = 40 if tier == "quick" else 200
    cp = os.path.join(work, "inter-cases.json")
    json.dump(INTER_CASES, open(cp, "w"))
    env = dict(os.environ, PYTHONPATH=os.path.join(common.REPO, "packages", "python"))

    def one(k):
        op = os.path.join(work, "inter-%d.json" % k)
        subprocess.run([common.PY, "-c", INTER, str(k), cp, op], env=env, stdout=subprocess.PIPE, stderr=subprocess.PIPE, timeout=120)
        return json.load(open(op)) if os.path.exists(op) else []
    with cf.ThreadPoolExecutor(max_workers=common.NCPU) as ex:
        results = list(ex.map(one, range(1, n + 1)))
    trace, where = [], []
    for k, evs in enumerate(results, 1):
        for ev in evs:
            trace.append(ev)
            where.append(k)
    if not trace:
        raise common.MachineryError("the interleaved comparison runs produced no events")
    tp = os.path.join(work, "inter-trace.json")
    json.dump(trace, open(tp, "w"))
    rc, out = common.run_tlc("PositionOrder", "CONSTANTS NEvents = %d\nINIT TInit\nNEXT Step\nPOSTCONDITION AllConsumed\nCHECK_DEADLOCK FALSE\n" % len(trace), env={"POS_TRACE": tp})
    if '"@DONE' not in out:
        raise common.MachineryError("PositionOrder.tla did not consume the interleaved trace:\n" + out[-2000:])
    for f in common.tagged_lines(out, "@F"):
        ev = trace[f["l"] - 1]
        for clause in f["c"]:
            rep.violation({"clause": clause, "kind": "interleaved:" + ev["k"]}, dict(ev, suspended_after_line=where[f["l"] - 1]))
    return {"suspension_points": n, "events": len(trace)}


def machine(rep, tier, work):
    """Histories of assignments and comparisons on two live Position objects (PositionMachine.tla):
    TLC enumerates them, the harness replays each on real objects, TLC replays the trace on its own state."""
    maxlen = 3 if tier == "quick" else 4
    rc, out = common.run_tlc("PositionMachine", "CONSTANTS MaxLen = %d NRuns = 0 NEvents = 0\nINIT GInit\nNEXT GNext\nINVARIANT StateIsFoldOfHistory\n"
                             "INVARIANT Trichotomy\nINVARIANT EmitHistory\nCHECK_DEADLOCK FALSE\n" % maxlen, workers=4, heap="4g")
    if "No error has been found" not in out:
        raise common.MachineryError("PositionMachine.tla generation failed:\n" + out[-2000:])
    gen, distinct = common.tlc_stats(out)
    hists = list(common.tagged_lines(out, "@M"))
    hp, tp = os.path.join(work, "hists.json"), os.path.join(work, "mtrace.json")
    json.dump(hists, open(hp, "w"))
    env = dict(os.environ, PYTHONPATH=os.path.join(common.REPO, "packages", "python"))
    p = subprocess.run([common.PY, "-c", MACHINE, hp, tp], env=env, stdout=subprocess.PIPE, stderr=subprocess.PIPE)
    if p.returncode != 0:
        raise common.MachineryError("C20 machine driver failed:\n" + p.stderr.decode()[-2000:])
    runs = json.load(open(tp))
    nev, nfail = 0, 0
    CH = 4000
    for k in range(0, len(runs), CH):
        chunk = runs[k:k + CH]
        cp = os.path.join(work, "mtrace-%d.json" % k)
        json.dump(chunk, open(cp, "w"))
        n = sum(len(r["events"]) for r in chunk)
        nev += n
        rc, out2 = common.run_tlc("PositionMachine", "CONSTANTS MaxLen = 0 NRuns = %d NEvents = %d\nINIT TInit\nNEXT TStep\nPOSTCONDITION AllConsumed\nCHECK_DEADLOCK FALSE\n" % (len(chunk), n),
                                  env={"POSM_TRACE": cp}, heap="4g")
        if '"@DONE' not in out2:
            raise common.MachineryError("PositionMachine.tla did not consume the trace:\n" + out2[-2000:])
        for f in common.tagged_lines(out2, "@F"):
            run = chunk[f["run"] - 1]
            ev = run["events"][f["l"] - 1]
            for clause in f["c"]:
                # signature: the clause and the SHAPE of the history up to the failing event (action kinds only)
                shape = "/".join(e["a"] for e in run["events"][:f["l"]])
                rep.violation({"clause": clause, "kind": "machine:" + shape}, {"init": run["init"], "hist": [{k2: v for k2, v in e.items() if k2 in ("a", "o", "p", "f", "v", "w")} for e in run["events"][:f["l"]]], "observed": ev, "spec_state": f["state"]})
    return {"histories": len(hists), "history_length": maxlen, "events": nev, "states": distinct, "transitions": gen}


def check(tier):
    rep = common.Reporter("C20", tier, "model_checking")
    rc, out = common.run_tlc("PositionOrder", GEN_CFG)
    if "No error has been found" not in out:
        raise common.MachineryError("PositionOrder.tla (generation / order lemmas) failed:\n" + out[-2000:])
    gen, distinct = common.tlc_stats(out)
    cases = list(common.tagged_lines(out, "@P"))
    rnd = random.Random(common.seed())
    nrand = 2000 if tier == "quick" else 40000
    M = 2 ** 31 - 1
    for _ in range(nrand):
        a = [rnd.choice([rnd.randint(0, M), rnd.randint(0, 3), M - rnd.randint(0, 3)]) for _ in range(2)]
        b = [rnd.choice([rnd.randint(0, M), a[i], a[i] + 1 if a[i] < M else a[i] - 1, rnd.randint(0, 3)]) for i in range(2)]
        cases.append({"k": "pos", "pa": a, "pb": b})
    work = common.scratch("c20-")
    try:
        cp, tp = os.path.join(work, "cases.json"), os.path.join(work, "trace.json")
        json.dump(cases, open(cp, "w"))
        env = dict(os.environ, PYTHONPATH=os.path.join(common.REPO, "packages", "python"))
        p = subprocess.run([common.PY, "-c", DRIVER, cp, tp], env=env, stdout=subprocess.PIPE, stderr=subprocess.PIPE)
        if p.returncode != 0:
            raise common.MachineryError("C20 driver failed:\n" + p.stderr.decode()[-2000:])
        trace = json.load(open(tp))
        cfg = "CONSTANTS NEvents = %d\nINIT TInit\nNEXT Step\nPOSTCONDITION AllConsumed\nCHECK_DEADLOCK FALSE\n" % len(trace)
        rc, out2 = common.run_tlc("PositionOrder", cfg, env={"POS_TRACE": tp})
        if '"@DONE' not in out2:
            raise common.MachineryError("PositionOrder.tla did not consume the trace:\n" + out2[-2000:])
        for f in common.tagged_lines(out2, "@F"):
            ev = trace[f["l"] - 1]
            for clause in f["c"]:
                key = {"clause": clause, "kind": ev["k"] + (":" + ev["fk"] if ev["k"] == "foreign" else "")}
                rep.violation(key, ev)
        mach = machine(rep, tier, work)
        inter = interleaved(rep, tier, work)
    finally:
        import shutil
        shutil.rmtree(work, ignore_errors=True)
    # adjunct: the oracle's order lemmas over all of Nat x Nat, proved by TLAPS (does not bind the code)
    tl = {"ran": False}
    import shutil as _sh
    if _sh.which("tlapm"):
        w2 = common.scratch("tlaps-")
        try:
            _sh.copy(os.path.join(common.SPEC, "LexOrder.tla"), w2)
            pr = subprocess.run(["tlapm", "LexOrder.tla"], cwd=w2, stdout=subprocess.PIPE, stderr=subprocess.STDOUT, timeout=600)
            import re
            m = re.search(r"All (\d+) obligations? proved", pr.stdout.decode())
            tl = {"ran": True, "all_proved": bool(m), "obligations": int(m.group(1)) if m else 0}
            if not m:
                raise common.MachineryError("TLAPS no longer proves the order lemmas of the oracle:\n" + pr.stdout.decode()[-1500:])
        finally:
            _sh.rmtree(w2, ignore_errors=True)
    bykind = {}
    for c in cases:
        bykind[c["k"]] = bykind.get(c["k"], 0) + 1
    rep.coverage.update({"states": distinct, "transitions": gen, "traces_validated_against_impl": len(trace),
                         "cases_by_kind": bykind, "machine": mach, "interleaved_first_comparison": inter, "tlaps_order_lemmas": tl, "random_pairs": nrand, "exhaustive": True,
                         "rule": "all pairs over the grid {0,1,2,2^31-2,2^31-1}^2 (625) x 6 operators + repr; 256 range pairs; location pairs; foreign operands; plus seeded random position pairs; order lemmas (trichotomy, transitivity) of the oracle checked by TLC on the grid; PositionMachine.tla: every history of assignments / comparisons / Range-Location comparisons of the stated length on two live objects from 2 initial states, replayed on real objects and validated step by step",
                         "samples": trace[:2] + trace[-2:]})
    rep.assumptions = ["the harness only calls operators / repr on the public classes and records the outcome", "TLC evaluates Lex and ToString faithfully"]
    return rep
