"""C20: Position / Range / Location comparison and repr, judged by PositionOrder.tla."""
import json
import os
import random
import subprocess
import sys

from . import common

GEN_CFG = "CONSTANTS NEvents = 0\nINIT Init\nNEXT Next\nINVARIANT Trichotomy\nINVARIANT Transitive\nINVARIANT EmitCase\nCHECK_DEADLOCK FALSE\n"

DRIVER = r'''
import json, sys, operator
from lsprotocol import types as t

def pos(p): return t.Position(line=p[0], character=p[1])
def rng(r): return t.Range(start=pos(r[0]), end=pos(r[1]))
def loc(l): return t.Location(uri=l["uri"], range=rng(l["r"]))
class PositionLike:
    line = 0
    character = 0
class RangeLike:
    start = t.Position(line=0, character=0)
    end = t.Position(line=0, character=0)
class LocationLike:
    uri = "u"
    range = t.Range(start=t.Position(line=0, character=0), end=t.Position(line=0, character=0))
FOREIGN = {"int": 3, "str": "0:0", "none": None, "tuple": (0, 0), "float": 1.5, "dict": {"line": 0, "character": 0},
           "position-like": PositionLike(), "range-like": RangeLike(), "location-like": LocationLike(), "pos": pos((0, 0)), "range": rng(((0, 0), (0, 0))), "loc": loc({"uri": "u", "r": ((0, 0), (0, 0))})}
OPS = {"lt": operator.lt, "le": operator.le, "gt": operator.gt, "ge": operator.ge, "eq": operator.eq, "ne": operator.ne}
def run(op, a, b):
    try:
        r = OPS[op](a, b)
    except TypeError:
        return "TypeError"
    except Exception as e:
        return "Other:" + type(e).__name__
    return "T" if r is True else "F" if r is False else "NonBool:" + repr(r)
out = []
for c in json.load(open(sys.argv[1])):
    ev = dict(c)
    if c["k"] == "pos":
        a, b = pos(c["pa"]), pos(c["pb"])
        for op in OPS: ev[op] = run(op, a, b)
        ev["repr"] = repr(a)
    elif c["k"] == "range":
        a, b = rng(c["ra"]), rng(c["rb"])
        for op in ("eq", "ne"): ev[op] = run(op, a, b)
        ev["repr"] = repr(a)
    elif c["k"] == "loc":
        a, b = loc(c["la"]), loc(c["lb"])
        for op in ("eq", "ne"): ev[op] = run(op, a, b)
        ev["repr"] = repr(a)
    else:
        a = FOREIGN[c["fk"]]
        b = FOREIGN[c["other"]]
        for op in OPS: ev[op] = run(op, a, b)
    out.append(ev)
json.dump(out, open(sys.argv[2], "w"))
'''


def check(tier):
    rep = common.Reporter("C20", tier, "model_checking")
    rc, out = common.run_tlc("PositionOrder", GEN_CFG)
    if "No error has been found" not in out:
        raise common.MachineryError("PositionOrder.tla (generation / order lemmas) failed:\n" + out[-2000:])
    gen, distinct = common.tlc_stats(out)
    cases = list(common.tagged_lines(out, "@P"))
    rnd = random.Random(common.seed())
    nrand = 2000 if tier == "quick" else 40000
    M = 2 ** 31 - 1
    for _ in range(nrand):
        a = [rnd.choice([rnd.randint(0, M), rnd.randint(0, 3), M - rnd.randint(0, 3)]) for _ in range(2)]
        b = [rnd.choice([rnd.randint(0, M), a[i], a[i] + 1 if a[i] < M else a[i] - 1, rnd.randint(0, 3)]) for i in range(2)]
        cases.append({"k": "pos", "pa": a, "pb": b})
    work = common.scratch("c20-")
    try:
        cp, tp = os.path.join(work, "cases.json"), os.path.join(work, "trace.json")
        json.dump(cases, open(cp, "w"))
        env = dict(os.environ, PYTHONPATH=os.path.join(common.REPO, "packages", "python"))
        p = subprocess.run([common.PY, "-c", DRIVER, cp, tp], env=env, stdout=subprocess.PIPE, stderr=subprocess.PIPE)
        if p.returncode != 0:
            raise common.MachineryError("C20 driver failed:\n" + p.stderr.decode()[-2000:])
        trace = json.load(open(tp))
        cfg = "CONSTANTS NEvents = %d\nINIT TInit\nNEXT Step\nPOSTCONDITION AllConsumed\nCHECK_DEADLOCK FALSE\n" % len(trace)
        rc, out2 = common.run_tlc("PositionOrder", cfg, env={"POS_TRACE": tp})
        if '"@DONE' not in out2:
            raise common.MachineryError("PositionOrder.tla did not consume the trace:\n" + out2[-2000:])
        for f in common.tagged_lines(out2, "@F"):
            ev = trace[f["l"] - 1]
            for clause in f["c"]:
                key = {"clause": clause, "kind": ev["k"] + (":" + ev["fk"] if ev["k"] == "foreign" else "")}
                rep.violation(key, ev)
    finally:
        import shutil
        shutil.rmtree(work, ignore_errors=True)
    # adjunct: the oracle's order lemmas over all of Nat x Nat, proved by TLAPS (does not bind the code)
    tl = {"ran": False}
    import shutil as _sh
    if _sh.which("tlapm"):
        w2 = common.scratch("tlaps-")
        try:
            _sh.copy(os.path.join(common.SPEC, "LexOrder.tla"), w2)
            pr = subprocess.run(["tlapm", "LexOrder.tla"], cwd=w2, stdout=subprocess.PIPE, stderr=subprocess.STDOUT, timeout=600)
            import re
            m = re.search(r"All (\d+) obligations? proved", pr.stdout.decode())
            tl = {"ran": True, "all_proved": bool(m), "obligations": int(m.group(1)) if m else 0}
            if not m:
                raise common.MachineryError("TLAPS no longer proves the order lemmas of the oracle:\n" + pr.stdout.decode()[-1500:])
        finally:
            _sh.rmtree(w2, ignore_errors=True)
    bykind = {}
    for c in cases:
        bykind[c["k"]] = bykind.get(c["k"], 0) + 1
    rep.coverage.update({"states": distinct, "transitions": gen, "traces_validated_against_impl": len(trace),
                         "cases_by_kind": bykind, "tlaps_order_lemmas": tl, "random_pairs": nrand, "exhaustive": True,
                         "rule": "all pairs over the grid {0,1,2,2^31-2,2^31-1}^2 (625) x 6 operators + repr; 256 range pairs; location pairs; foreign operands; plus seeded random position pairs; order lemmas (trichotomy, transitivity) of the oracle checked by TLC on the grid",
                         "samples": trace[:2] + trace[-2:]})
    rep.assumptions = ["the harness only calls operators / repr on the public classes and records the outcome", "TLC evaluates Lex and ToString faithfully"]
    return rep
