"""C16 (generation is a deterministic function of the model files) and C05 (committed packages
are the generator's fixed point), both through GenPipeline.tla."""
import ast
import concurrent.futures as cf
import copy
import glob
import hashlib
import json
import os
import random
import re
import shutil
import subprocess

from . import common

UUID_RE = re.compile(rb"[0-9a-fA-F]{8}-[0-9a-fA-F]{4}-[0-9a-fA-F]{4}-[0-9a-fA-F]{4}-[0-9a-fA-F]{12}")

# ownership is a constant taken from the plugins' code (DESIGN 2.5)
OWNED = {
    "python": lambda out, test: [os.path.join(out, "lsprotocol", "types.py")],
    "rust": lambda out, test: [os.path.join(out, "lsprotocol", "src", "lib.rs"), os.path.join(test, "src", "main.rs")],
    "dotnet": lambda out, test: sorted(glob.glob(os.path.join(glob.escape(out), "lsprotocol", "*.cs"))),
    "testdata": lambda out, test: sorted(glob.glob(os.path.join(glob.escape(out), "*.json"))),
}
STALE = {
    "python": lambda out, test: [(os.path.join(out, "lsprotocol", "types.py"), "# stale content\nx = 1\n")],
    "rust": lambda out, test: [(os.path.join(out, "lsprotocol", "src", "lib.rs"), "// stale content\n")],
    "dotnet": lambda out, test: [(os.path.join(out, "lsprotocol", "ZzVerifStale.cs"), "// stale\n"), (os.path.join(out, "lsprotocol", "Zz_Verif2Stale.cs"), "// stale\n")],
    # names shaped like real vectors of an earlier model (letters only, with a digit, with an underscore), and an odd one
    "testdata": lambda out, test: [(os.path.join(out, "VerifStale-True-0000.json"), "{}"),
                                   (os.path.join(out, "VerifStaleRequest-True-" + "0" * 64 + ".json"), "{}"),
                                   (os.path.join(out, "Verif2StaleNotification-False-" + "a" * 64 + ".json"), "{}"),
                                   (os.path.join(out, "Verif_StaleResponse-True-" + "b" * 64 + ".json"), "{}")],
}


def referenced(t, acc):
    k = t.get("kind")
    if k == "reference":
        acc.add(t["name"])
    elif k in ("or", "and", "tuple"):
        for x in t["items"]:
            referenced(x, acc)
    elif k == "array":
        referenced(t["element"], acc)
    elif k == "map":
        referenced(t["key"], acc)
        referenced(t["value"], acc)
    elif k == "literal":
        for p in t["value"]["properties"]:
            referenced(p["type"], acc)


def closed_submodel(doc, nreq=3, nnot=2):
    """A small model closed under references (the testdata plugin resolves them)."""
    by = {}
    for l in ("structures", "enumerations", "typeAliases"):
        for d in doc[l]:
            by[d["name"]] = (l, d)
    reqs = [r for r in doc["requests"] if r["method"] in ("textDocument/hover", "shutdown", "textDocument/prepareRename")][:nreq]
    nots = [n for n in doc["notifications"] if n["method"] in ("textDocument/didOpen", "exit", "$/cancelRequest")][:nnot + 1]
    need = {"LSPAny", "LSPObject", "LSPArray"}
    for m in reqs + nots:
        for key in ("params", "result", "partialResult", "registrationOptions", "errorData"):
            if isinstance(m.get(key), dict):
                referenced(m[key], need)
    done = set()
    while need - done:
        n = (need - done).pop()
        done.add(n)
        if n not in by:
            continue
        l, d = by[n]
        if l == "structures":
            for p in d["properties"]:
                referenced(p["type"], need)
            for e in d.get("extends", []) + d.get("mixins", []):
                referenced(e, need)
        elif l == "typeAliases":
            referenced(d["type"], need)
    out = {"metaData": doc["metaData"], "requests": reqs, "notifications": nots}
    for l in ("structures", "enumerations", "typeAliases"):
        out[l] = [d for d in doc[l] if d["name"] in done]
    return copy.deepcopy(out)


def evolved(doc):
    d = copy.deepcopy(doc)
    d["enumerations"].append({"name": "VerifExtraKind", "type": {"kind": "base", "name": "string"},
                              "values": [{"name": "One", "value": "one"}, {"name": "Two", "value": "two"}]})
    d["structures"].append({"name": "VerifExtraParams", "properties": [
        {"name": "kind", "type": {"kind": "reference", "name": "VerifExtraKind"}},
        {"name": "count", "type": {"kind": "base", "name": "uinteger"}, "optional": True}]})
    d["notifications"].append({"method": "verif/extra", "typeName": "VerifExtraNotification", "messageDirection": "clientToServer",
                               "params": {"kind": "reference", "name": "VerifExtraParams"}})
    # ... and existing declarations differ too (anything remembered per NAME or per metaData.version from an earlier
    # run in the same interpreter is then wrong): a base structure and a mixin gain a property, an optional
    # property goes, a closed enumeration gains a value
    by = {x["name"]: x for x in d["structures"]}
    for name in ("TextDocumentPositionParams", "WorkDoneProgressParams"):
        if name in by:
            by[name]["properties"].append({"name": "verifHint", "type": {"kind": "base", "name": "string"}, "optional": True})
    if "Hover" in by:
        by["Hover"]["properties"] = [p for p in by["Hover"]["properties"] if p["name"] != "range"]
    for e in d["enumerations"]:
        if e["name"] == "MarkupKind":
            e["values"].append({"name": "VerifMarkup", "value": "verifmarkup"})
    # anonymous literals whose property names TIE in length (names are taken from the model: properties that hold a
    # structure by reference), in a type alias and in a property: wherever a plugin derives a name from "the longest",
    # "the first" or "the smallest" of a collection of names, a tie must not be broken by set order
    import collections
    freq = collections.Counter()
    tyof = {}
    for st in doc["structures"]:
        for p in st["properties"]:
            t = p["type"]
            if t.get("kind") == "reference" and t["name"] in by and p["name"].isalpha():
                freq[p["name"]] += 1
                tyof.setdefault(p["name"], t)
    common_names = [n for n, c in freq.most_common() if c >= 3] or [n for n, c in freq.most_common(12)]
    bylen = {}
    for n in common_names:                       # most frequent first
        bylen.setdefault(len(n), []).append(n)
    k = 0
    for ln in sorted(bylen):
        names = bylen[ln]
        for a, b in zip(names, names[1:]):
            if k >= 6:
                break
            k += 1
            lit = {"kind": "literal", "value": {"properties": [{"name": a, "type": tyof[a]}, {"name": b, "type": tyof[b]}]}}
            d["typeAliases"].append({"name": "VerifTie%d" % k, "type": {"kind": "or", "items": [tyof[a], lit]}})
            d["structures"].append({"name": "VerifTieHolder%d" % k, "properties": [{"name": "target", "type": copy.deepcopy(lit)},
                                                                                  {"name": "targets", "type": {"kind": "array", "element": copy.deepcopy(lit)}, "optional": True}]})
    return d


def snapshot(plugin, out, test):
    files = [f for f in OWNED[plugin](out, test) if os.path.exists(f)]
    h = hashlib.sha256()
    uuid = False
    for f in files:
        data = open(f, "rb").read()
        # (named relative to the output / test directory it is in: what the directories are called is not output)
        h.update((("test/" + os.path.relpath(f, test)) if f.startswith(test + os.sep) else ("out/" + os.path.relpath(f, out))).encode())
        h.update(hashlib.sha256(data).digest())
        if UUID_RE.search(data):
            uuid = True
    return h.hexdigest(), len(files), uuid


def other_digest(plugin, out, test):
    h = hashlib.sha256()
    owned = set(OWNED[plugin](out, test))
    for root in (out, test):
        for d, dirs, files in sorted(os.walk(root)):
            dirs.sort()
            for f in sorted(files):
                p = os.path.join(d, f)
                h.update(p.encode())
                h.update(open(p, "rb").read())
    return h.hexdigest()


INPROC = r'''
import json, sys
from generator.__main__ import main
for line in sys.stdin:
    argv = json.loads(line)
    code = 0
    try:
        main(argv)
    except SystemExit as e:
        code = e.code if isinstance(e.code, int) else 1
    except BaseException:
        code = 1
    sys.stdout.write("DONE %d\n" % code)
    sys.stdout.flush()
'''


class Interpreter:
    """One long-lived interpreter in which generator.__main__.main is called once per run."""

    def __init__(self, hashseed, optimize=False, ascii_locale=False):
        env = dict(os.environ, PYTHONPATH=common.REPO, PYTHONHASHSEED=hashseed)
        if optimize:
            env["PYTHONOPTIMIZE"] = "1"
        if ascii_locale:
            env.update(LC_ALL="C", LANG="C", PYTHONUTF8="0", PYTHONCOERCECLOCALE="0")
        self.p = subprocess.Popen([common.PY, "-c", INPROC], cwd=common.REPO, env=env, stdin=subprocess.PIPE, stdout=subprocess.PIPE,
                                  stderr=subprocess.DEVNULL, text=True)

    def run(self, argv):
        try:
            self.p.stdin.write(json.dumps(argv) + "\n")
            self.p.stdin.flush()
            while True:
                line = self.p.stdout.readline()
                if not line:
                    return 255                       # the interpreter died
                if line.startswith("DONE "):
                    return int(line.split()[1])
        except (BrokenPipeError, OSError):
            return 255

    def close(self):
        try:
            self.p.stdin.close()
            self.p.wait(timeout=30)
        except Exception:  # noqa: BLE001
            self.p.kill()


def run_history(args):
    plugin, hist, models, work, idx, seed = args
    base = os.path.join(work, "h%d" % idx)
    # every second history lives in directories whose names carry glob metacharacters and a space
    out, test = (os.path.join(base, "out"), os.path.join(base, "test")) if idx % 2 == 0 else (os.path.join(base, "out [v1] x*"), os.path.join(base, "test [v1]"))
    os.makedirs(out)
    shutil.copytree(os.path.join(common.REPO, "tests", "rust"), test, ignore=shutil.ignore_patterns("target"))
    events = []
    rnd = random.Random(seed * 1000 + idx)
    interp = None
    try:
        for a in hist:
            if a["a"] == "OneInterpreter":
                first = next((x for x in hist if x["a"] == "Run"), None)
                hs0 = first["seed"] if first and first["seed"] not in ("r", "O", "L") else str(rnd.randint(2, 4000000))
                # the hash seed, -O and the locale are properties of the process: the first run's
                interp = Interpreter(hs0, optimize=bool(first and first["seed"] == "O"), ascii_locale=bool(first and first["seed"] == "L"))
                events.append({"e": "OneInterpreter", "plugin": plugin})
                continue
            if a["a"] == "Stale":
                placed = []
                for path, content in STALE[plugin](out, test):
                    if a.get("how") == "crlf" and os.path.exists(path):
                        continue                      # this history re-encodes what the plugin wrote instead of replacing it
                    os.makedirs(os.path.dirname(path), exist_ok=True)
                    with open(path, "w") as f:
                        f.write(content)
                    placed.append(path)
                # also corrupt one file the plugin already wrote (same name, other bytes: an interrupted run, a hand edit)
                # (the rust plugin owns only a marked region of <test-dir>/src/main.rs: that file is left alone)
                existing = [f for f in OWNED[plugin](out, test) if os.path.exists(f) and f not in placed and not f.startswith(test)]
                if existing:
                    target = existing[len(existing) // 2]
                    data = open(target, "rb").read()
                    if a.get("how") == "crlf" and data and b"\r\n" not in data:
                        # the TEXT the plugin wrote, with Windows line endings (a checkout, an editor): still not its output
                        open(target, "wb").write(data.replace(b"\n", b"\r\n"))
                    else:
                        with open(target, "w") as f:
                            f.write("stale bytes under an owned name\n")
                events.append({"e": "Stale", "plugin": plugin})
                continue
            model = models[a["model"] if a["valid"] else "bad"]
            mlist = model if isinstance(model, list) else [model]
            hs = a["seed"] if a["seed"] not in ("r", "O", "L") else str(rnd.randint(2, 4000000))
            # "nothing written" only matters for runs that must be refused
            before = other_digest(plugin, out, test) if not a["valid"] else ""
            argv = ["--model"] + mlist + ["--plugin", plugin, "--output-dir", out, "--test-dir", test]
            if interp is not None:
                rcode = interp.run(argv)
            else:
                env = dict(os.environ, PYTHONPATH=common.REPO, PYTHONHASHSEED=hs)
                if a["seed"] == "O":
                    env["PYTHONOPTIMIZE"] = "1"       # another process: python -O (and a random hash seed)
                if a["seed"] == "L":                  # another process: the locale encoding is ASCII, no UTF-8 mode
                    env.update(LC_ALL="C", LANG="C", PYTHONUTF8="0", PYTHONCOERCECLOCALE="0")
                p = subprocess.run([common.PY, "-m", "generator"] + argv,
                                   cwd=common.REPO, env=env, stdout=subprocess.DEVNULL, stderr=subprocess.DEVNULL, timeout=1800)
                rcode = p.returncode
            digest, n, uuid = snapshot(plugin, out, test)
            stale_left = [os.path.basename(pth) for pth, content in STALE[plugin](out, test)
                          if os.path.exists(pth) and open(pth).read() == content]
            events.append({"e": "Run", "plugin": plugin, "model": a["model"], "seed": a["seed"], "valid": a["valid"],
                           "exit": rcode if rcode >= 0 else 255, "digest": digest, "n": n,
                           "stale_left": stale_left, "uuid": uuid,
                           "changed": (other_digest(plugin, out, test) != before) if not a["valid"] else False})
    finally:
        if interp is not None:
            interp.close()
        shutil.rmtree(base, ignore_errors=True)
    return events


def design_level():
    base = "CONSTANTS MaxLen = 2 NoCleanup = %s LastOnly = %s NEvents = 0\nINIT GInit\nNEXT GNext\nINVARIANT OutputIsFunctionOfModel\nINVARIANT PhaseOrder\nCHECK_DEADLOCK FALSE\n"
    rc, ok = common.run_tlc("GenPipeline", base % ("FALSE", "FALSE"), workers=4)
    rc, bad = common.run_tlc("GenPipeline", base % ("TRUE", "FALSE"), workers=4)
    rc, bad2 = common.run_tlc("GenPipeline", base % ("FALSE", "TRUE"), workers=4)
    if "Invariant PhaseOrder is violated" not in bad2:
        raise common.MachineryError("GenPipeline.tla validating only the last file no longer violates PhaseOrder (vacuity)")
    if "No error has been found" not in ok:
        raise common.MachineryError("GenPipeline.tla design check failed:\n" + ok[-2000:])
    if "Invariant OutputIsFunctionOfModel is violated" not in bad:
        raise common.MachineryError("GenPipeline.tla without Cleanup no longer yields the stale-file counterexample (vacuity)")
    return common.tlc_stats(ok)


def histories(maxlen):
    cfg = "CONSTANTS MaxLen = %d NoCleanup = FALSE LastOnly = FALSE NEvents = 0\nINIT GInit\nNEXT GNext\nVIEW HistView\nINVARIANT EmitHistory\nCHECK_DEADLOCK FALSE\n" % maxlen
    rc, out = common.run_tlc("GenPipeline", cfg, workers=1)
    if "No error has been found" not in out:
        raise common.MachineryError("history enumeration failed:\n" + out[-2000:])
    seen, res = set(), []
    for h in common.tagged_lines(out, "@H"):
        k = json.dumps(h, sort_keys=True)
        if k not in seen:
            seen.add(k)
            res.append(h)
    return res


def check_c16(tier):
    rep = common.Reporter("C16", tier, "model_checking")
    gen, distinct = design_level()
    hs = histories(2 if tier == "quick" else 3)
    for shorter in ([1] if tier == "quick" else [1, 2]):
        hs += histories(shorter)
    must = []
    if tier == "quick":
        # always executed: run, corrupt / place stale files, run again (needs length 3)
        for h in histories(3):
            a = h["hist"]
            if (len(a) == 3 and a[0]["a"] == "Run" and a[1]["a"] == "Stale" and a[2]["a"] == "Run" and a[0]["valid"] and a[2]["valid"]
                    and a[0]["seed"] == "0" and a[2]["seed"] == "1" and a[0]["model"] != "C" and a[2]["model"] != "C"):
                must.append(h)
            # ... and two or three runs of different models inside ONE interpreter
            if (len(a) == 3 and a[0]["a"] == "OneInterpreter" and a[1]["a"] == "Run" and a[2]["a"] == "Run" and a[1]["valid"] and a[2]["valid"]
                    and a[1]["model"] != a[2]["model"] and a[1]["seed"] == "0" and a[2]["seed"] == "0"):
                must.append(h)
        # the same model by a plain process and by one with an ASCII locale / python -O
        for plugin in ("python", "rust", "dotnet", "testdata"):
            for other in ("L", "O"):
                must.append({"plugin": plugin, "hist": [{"a": "Run", "model": "A", "seed": "0", "valid": True},
                                                        {"a": "Run", "model": "A", "seed": other, "valid": True}]})
        # a list of two model files under different hash seeds (the merge order must be the command-line order)
        for plugin in ("python", "rust", "dotnet"):
            for seeds in (("0", "1"), ("1", "r"), ("r", "r")):
                must.append({"plugin": plugin, "hist": [{"a": "Run", "model": "C", "seed": seeds[0], "valid": True},
                                                        {"a": "Run", "model": "C", "seed": seeds[1], "valid": True}]})
    rnd = random.Random(common.seed())
    full = json.load(open(os.path.join(common.REPO, "generator", "lsp.json")))
    small = closed_submodel(full)
    work = common.scratch("c16-")
    try:
        paths = {}
        for name, doc in (("A", full), ("B", evolved(full)), ("sA", small), ("sB", evolved(small))):
            paths[name] = os.path.join(work, name + ".json")
            json.dump(doc, open(paths[name], "w"))
        ext = {"metaData": {"version": "0.0.1-ext"}, "requests": [], "notifications": [], "typeAliases": [],
               "enumerations": [{"name": "VerifExtKind", "type": {"kind": "base", "name": "string"}, "values": [{"name": "A", "value": "a"}]}],
               "structures": [{"name": "VerifExtStruct", "properties": [{"name": "kind", "type": {"kind": "reference", "name": "VerifExtKind"}}]}]}
        paths["ext"] = os.path.join(work, "ext.json")
        json.dump(ext, open(paths["ext"], "w"))
        bad = copy.deepcopy(small)
        bad["structures"][0]["properties"].append({"name": "verifBad", "type": 12345})
        paths["bad"] = os.path.join(work, "bad.json")
        json.dump(bad, open(paths["bad"], "w"))
        jobs = []
        per_plugin = {}
        for h in must + hs:
            p = h["plugin"]
            invalid = any(a["a"] == "Run" and not a["valid"] for a in h["hist"])
            runs = sum(1 for a in h["hist"] if a["a"] == "Run")
            if runs == 0:
                continue
            if h in must:
                pass
            elif tier == "quick":
                if invalid and rnd.random() > 0.08:
                    continue
                if p == "testdata" and rnd.random() > 0.1:
                    continue
                if p == "dotnet" and rnd.random() > 0.25:
                    continue
                if p in ("python", "rust") and rnd.random() > 0.5:
                    continue
            else:
                if p == "testdata" and rnd.random() > 0.03:
                    continue
                if p == "dotnet" and rnd.random() > 0.1:
                    continue
                if p in ("python", "rust") and rnd.random() > 0.3:
                    continue
                if invalid and rnd.random() > 0.3:
                    continue
            per_plugin[p] = per_plugin.get(p, 0) + 1
            small_models = p == "testdata" and tier == "quick"
            models = {"A": paths["sA" if small_models else "A"], "B": paths["sB" if small_models else "B"], "bad": paths["bad"],
                      "C": [paths["sA" if small_models else "A"], paths["ext"]]}
            jobs.append((p, h["hist"], models, work, len(jobs), common.seed()))
        # processes, not threads: hashing tens of thousands of files is Python work (GIL)
        with cf.ProcessPoolExecutor(max_workers=common.NCPU) as ex:
            runs = list(ex.map(run_history, jobs))
        # the function gen is per (plugin, model file): histories of the testdata plugin on the small and the full model differ
        tp = os.path.join(work, "trace.json")
        json.dump(runs, open(tp, "w"))
        nev = sum(len(r) for r in runs)
        rc, out = common.run_tlc("GenPipeline", "CONSTANTS MaxLen = 0 NoCleanup = FALSE LastOnly = FALSE NEvents = %d\nINIT TInit\nNEXT TStep\nPOSTCONDITION AllConsumed\nCHECK_DEADLOCK FALSE\n" % nev,
                                 env={"GEN_TRACE": tp}, heap="4g")
        if '"@DONE' not in out:
            raise common.MachineryError("GenPipeline.tla did not consume the trace:\n" + out[-2500:])
        for f in common.tagged_lines(out, "@F"):
            ev = runs[f["run"] - 1][f["l"] - 1]
            for clause in f["c"]:
                rep.violation({"clause": clause, "plugin": ev["plugin"]}, {"history": jobs[f["run"] - 1][1], "event": ev})
    finally:
        shutil.rmtree(work, ignore_errors=True)
    rep.coverage.update({"states": distinct, "transitions": gen, "traces_validated_against_impl": len(runs), "events_validated": nev,
                         "histories_enumerated_by_tlc": len(hs), "histories_executed_per_plugin": per_plugin,
                         "runs_executed": sum(1 for r in runs for e in r if e["e"] == "Run"),
                         "exhaustive": False,
                         "rule": "design level: GenPipeline.tla model-checked (with Cleanup holds, without it TLC finds the stale-file counterexample); code level: histories over Run(model A|B, hash seed 0|1|random, valid|schema-invalid) and PlaceStale enumerated by TLC up to the bound, a seeded selection executed through the real CLI in scratch directories, snapshots of the owned files validated against one inferred function gen(plugin, model)",
                         "samples": [{"history": jobs[0][1], "events": runs[0]}]})
    rep.assumptions = ["ownership of output files per plugin is the constant table in harness/check_gen.py (taken from the plugins' code)",
                       "snapshots are sha256 digests over the owned files; the UUID observation is a regular expression over their bytes"]
    return rep


# ---------------------------------------------------------------------------------------------
# C05
# ---------------------------------------------------------------------------------------------

def py_items(path):
    src = open(path, encoding="utf-8").read()
    tree = ast.parse(src)

    class Norm(ast.NodeTransformer):
        def visit_Expr(self, node):
            if isinstance(node.value, ast.Constant) and isinstance(node.value.value, str):
                node.value = ast.Constant(value=" ".join(node.value.value.split()))
            return node
    tree = Norm().visit(tree)
    return [hashlib.sha1(ast.dump(st).encode()).hexdigest()[:16] for st in tree.body], [ast.unparse(st).split("\n")[0][:80] for st in tree.body]


def rust_items(path, work, tag):
    tmp = os.path.join(work, tag + ".rs")
    shutil.copy(path, tmp)
    p = subprocess.run(["rustfmt", "--edition", "2021", tmp], stdout=subprocess.PIPE, stderr=subprocess.PIPE)
    if p.returncode != 0:
        raise common.MachineryError("rustfmt failed on %s:\n%s" % (path, p.stderr.decode()[-1500:]))
    blocks, cur = [], []
    for line in open(tmp, encoding="utf-8"):
        if line.strip() == "" and cur:
            blocks.append("".join(cur))
            cur = []
        elif line.strip():
            cur.append(line)
    if cur:
        blocks.append("".join(cur))
    return [hashlib.sha1(b.encode()).hexdigest()[:16] for b in blocks], [b.split("\n")[0][:80] for b in blocks]


def check_c05(tier):
    rep = common.Reporter("C05", tier, "translation_validation")
    work = common.scratch("c05-")
    try:
        events, labels = [], []
        # the generator process as the build runs it, and with another hash seed under python -O (assert statements gone)
        for plugin, extra in (("python", {}), ("rust", {}), ("python", {"PYTHONOPTIMIZE": "1", "PYTHONHASHSEED": str(common.seed() + 2)}),
                              ("rust", {"PYTHONOPTIMIZE": "1", "PYTHONHASHSEED": str(common.seed() + 2)})):
            tag = plugin + ("-O" if extra else "")
            out, test = os.path.join(work, tag + "-out"), os.path.join(work, tag + "-test")
            os.makedirs(out)
            shutil.copytree(os.path.join(common.REPO, "tests", "rust"), test, ignore=shutil.ignore_patterns("target"))
            env = dict(os.environ, PYTHONPATH=common.REPO, PYTHONHASHSEED=str(common.seed()))
            env.update(extra)
            p = subprocess.run([common.PY, "-m", "generator", "--plugin", plugin, "--output-dir", out, "--test-dir", test],
                               cwd=common.REPO, env=env, stdout=subprocess.PIPE, stderr=subprocess.STDOUT, timeout=600)
            if p.returncode != 0:
                rep.violation({"clause": "F_generator_failed", "plugin": plugin}, {"output": p.stdout.decode()[-1500:]})
                continue
            if plugin == "python":
                g, gl = py_items(os.path.join(out, "lsprotocol", "types.py"))
                c, cl = py_items(os.path.join(common.REPO, "packages", "python", "lsprotocol", "types.py"))
            else:
                g, gl = rust_items(os.path.join(out, "lsprotocol", "src", "lib.rs"), work, "gen" + ("O" if extra else ""))
                c, cl = rust_items(os.path.join(common.REPO, "packages", "rust", "lsprotocol", "src", "lib.rs"), work, "committed")
            events.append({"e": "FixedPoint", "plugin": plugin, "interpreter": "-O" if extra else "plain", "gen": g, "committed": c})
            labels.append((gl, cl))
        # should the command line accept several plugins in ONE run (one process, one model object for all of them), that
        # way of running "the generator's python and rust plugins" must reproduce the committed files just the same
        for order in (("python", "rust"), ("rust", "python")):
            tag = "combined-" + "-".join(order)
            out, test = os.path.join(work, tag + "-out"), os.path.join(work, tag + "-test")
            os.makedirs(out)
            shutil.copytree(os.path.join(common.REPO, "tests", "rust"), test, ignore=shutil.ignore_patterns("target"))
            env = dict(os.environ, PYTHONPATH=common.REPO, PYTHONHASHSEED=str(common.seed()))
            p = subprocess.run([common.PY, "-m", "generator", "--plugin"] + list(order) + ["--output-dir", out, "--test-dir", test],
                               cwd=common.REPO, env=env, stdout=subprocess.PIPE, stderr=subprocess.STDOUT, timeout=900)
            if p.returncode != 0:
                continue                              # the command line takes one plugin per run (as in the pinned tree)
            found = {"python": None, "rust": None}
            for d, _, files in os.walk(out):
                if "types.py" in files and d.endswith("lsprotocol"):
                    found["python"] = os.path.join(d, "types.py")
                if "lib.rs" in files:
                    found["rust"] = os.path.join(d, "lib.rs")
            for plugin in order:
                if not found[plugin]:
                    continue
                if plugin == "python":
                    g, gl = py_items(found[plugin])
                    c, cl = py_items(os.path.join(common.REPO, "packages", "python", "lsprotocol", "types.py"))
                else:
                    g, gl = rust_items(found[plugin], work, "gen" + tag)
                    c, cl = rust_items(os.path.join(common.REPO, "packages", "rust", "lsprotocol", "src", "lib.rs"), work, "committed")
                events.append({"e": "FixedPoint", "plugin": plugin, "interpreter": "one run: --plugin " + " ".join(order), "gen": g, "committed": c})
                labels.append((gl, cl))
        tp = os.path.join(work, "trace.json")
        json.dump([events], open(tp, "w"))
        rc, out = common.run_tlc("GenPipeline", "CONSTANTS MaxLen = 0 NoCleanup = FALSE LastOnly = FALSE NEvents = %d\nINIT TInit\nNEXT TStep\nPOSTCONDITION AllConsumed\nCHECK_DEADLOCK FALSE\n" % len(events),
                                 env={"GEN_TRACE": tp}, heap="3g")
        if '"@DONE' not in out and events:
            raise common.MachineryError("GenPipeline.tla did not consume the C05 trace:\n" + out[-2500:])
        disagreements = 0
        for f in common.tagged_lines(out, "@F"):
            ev = events[f["l"] - 1]
            gl, cl = labels[f["l"] - 1]
            at = f["at"]
            disagreements += 1
            rep.violation({"clause": "F_differs", "plugin": ev["plugin"]} if ev["interpreter"] == "plain" else {"clause": "F_differs", "plugin": ev["plugin"], "interpreter": ev["interpreter"]},
                          {"first_differing_item": at, "generated": gl[at - 1] if 0 < at <= len(gl) else "<none>",
                           "committed": cl[at - 1] if 0 < at <= len(cl) else "<none>", "items_generated": len(gl), "items_committed": len(cl)})
    finally:
        shutil.rmtree(work, ignore_errors=True)
    rep.coverage.update({"programs": len(events), "disagreements_checked": sum(len(e["gen"]) + len(e["committed"]) for e in events),
                         "items": {e["plugin"]: len(e["committed"]) for e in events}, "interpreter_configurations": ["plain", "-O with another hash seed"],
                         "samples": [{"plugin": e["plugin"], "first_items": labels[i][1][:3]} for i, e in enumerate(events)],
                         "explanation": "python and rust plugins run from the working tree on the committed model; types.py compared statement by statement on the AST with docstring whitespace collapsed, lib.rs block by block after rustfmt on both; the item-hash sequences are compared by GenPipeline.tla (FixedPoint event, first differing item reported)"})
    rep.assumptions = ["normal forms: Python ast.dump with whitespace-collapsed string statements; rustfmt --edition 2021 for Rust (ruff is not installed)"]
    return rep
