"""Shared plumbing: paths, TLC runner, evidence writer, known findings.

Nothing in here decides a property.  TLC is the oracle; this module only starts it,
collects the lines it prints and turns verdict lines into the check interface
(VIOLATION / KNOWN-FINDING lines, evidence files, exit codes).
"""
import hashlib
import json
import os
import shutil
import subprocess
import sys
import tempfile
import time

VERIF = os.path.dirname(os.path.dirname(os.path.abspath(__file__)))
SPEC = os.path.join(VERIF, "spec")
REPO = os.environ.get("VERIF_REPO", "/repo")
PY = "/venv/bin/python"
# VERIF_EVIDENCE redirects the evidence files: used only when the machinery is tried on a scratch copy of the
# repository (seeded regressions), so that /verif/evidence always describes runs against /repo itself
EVIDENCE = os.environ.get("VERIF_EVIDENCE") or os.path.join(VERIF, "evidence")
REPLAY = os.path.join(EVIDENCE, "replay")
CACHE = os.path.join(VERIF, ".cache")
KNOWN = os.path.join(VERIF, "known_findings.jsonl")
NCPU = int(os.environ.get("VERIF_JOBS", str(os.cpu_count() or 4)))

TLC_CP = "/opt/veriftools/tla/tla2tools.jar:/opt/veriftools/tla/CommunityModules-deps.jar"


class MachineryError(Exception):
    """The checking machinery itself failed (exit code 2, never a violation)."""


def seed():
    try:
        return int(os.environ.get("VERIF_SEED", "0"))
    except ValueError:
        return 0


def scratch(prefix="lspverif-"):
    return tempfile.mkdtemp(prefix=prefix, dir=os.environ.get("VERIF_SCRATCH", "/tmp"))


def tlc_cmd(module, cfg, workers=1, extra=(), metadir=None, heap="3g", deque=False):
    jopts = ["-XX:+UseParallelGC", "-XX:ParallelGCThreads=2", "-XX:CICompilerCount=2", "-Xss64m", "-Xmx" + heap, "-Dfile.encoding=UTF-8", "-Dstdout.encoding=UTF-8"]
    if deque:
        jopts.append("-Dtlc2.tool.queue.IStateQueue=StateDeque")
    if metadir:
        # TLC unpacks its standard modules into java.io.tmpdir/tlc-<n> and leaves them there: keep them inside the
        # per-run scratch directory, which run_tlc removes
        jopts.append("-Djava.io.tmpdir=" + os.path.dirname(metadir))
    return (["java"] + jopts + ["-cp", TLC_CP, "tlc2.TLC", "-workers", str(workers), "-noGenerateSpecTE",
            "-metadir", metadir, "-config", cfg] + list(extra) + [module])


def run_tlc(module, cfg_text, env=None, workers=1, extra=(), timeout=3600, heap="3g", cwd=SPEC, out_path=None):
    """Run TLC on spec/<module>.tla with a generated cfg.  Returns (returncode, output text).

    The cfg is written to a scratch dir; the spec is read from /verif/spec (cwd) so that
    EXTENDS resolves.  Output goes to out_path when given (large emissions), else is captured."""
    tmp = scratch("tlc-")
    try:
        cfg = os.path.join(tmp, module + ".cfg")
        with open(cfg, "w") as f:
            f.write(cfg_text)
        e = dict(os.environ)
        e.pop("JAVA_TOOL_OPTIONS", None)
        if env:
            e.update(env)
        cmd = tlc_cmd(module, cfg, workers=workers, extra=extra, metadir=os.path.join(tmp, "meta"), heap=heap)
        if out_path:
            with open(out_path, "w") as out:
                p = subprocess.run(cmd, cwd=cwd, env=e, stdout=out, stderr=subprocess.STDOUT, timeout=timeout)
            return p.returncode, None
        p = subprocess.run(cmd, cwd=cwd, env=e, stdout=subprocess.PIPE, stderr=subprocess.STDOUT, timeout=timeout)
        return p.returncode, p.stdout.decode("utf-8", "replace")
    finally:
        shutil.rmtree(tmp, ignore_errors=True)


def tagged_lines(text_or_path, tag, is_path=False):
    """Yield the JSON payloads of lines TLC printed with PrintT("<tag> " \\o ToJson(..))."""
    prefix = '"' + tag + " "
    it = open(text_or_path, encoding="utf-8") if is_path else text_or_path.splitlines()
    try:
        for line in it:
            line = line.rstrip("\n")
            if line.startswith(prefix):
                inner = json.loads(line)          # TLA+ string escapes are JSON escapes
                yield json.loads(inner[len(tag) + 1:])
    finally:
        if is_path:
            it.close()


def tlc_stats(text):
    """(states generated, distinct states) from TLC's summary line, or (0, 0)."""
    import re
    m = None
    for m in re.finditer(r"(\d[\d,]*) states generated, (\d[\d,]*) distinct states found", text):
        pass
    if not m:
        return 0, 0
    return int(m.group(1).replace(",", "")), int(m.group(2).replace(",", ""))


def tlc_ok(text):
    return "Model checking completed. No error has been found." in text or "Finished in" in text and "Error:" not in text


def file_hash(paths):
    h = hashlib.sha256()
    for p in sorted(paths):
        h.update(p.encode())
        try:
            with open(p, "rb") as f:
                h.update(f.read())
        except OSError:
            h.update(b"<missing>")
    return h.hexdigest()


def tree_files(root, exts=None):
    out = []
    for d, dirs, files in os.walk(root):
        dirs[:] = [x for x in dirs if x not in ("__pycache__", ".git", ".cache", "node_modules")]
        for f in files:
            if exts is None or f.endswith(exts):
                out.append(os.path.join(d, f))
    return out


# ---------------------------------------------------------------------------------------------
# known findings
# ---------------------------------------------------------------------------------------------

def load_known():
    out = []
    if os.path.exists(KNOWN):
        for line in open(KNOWN):
            line = line.strip()
            if line and not line.startswith("#"):
                out.append(json.loads(line))
    return out


def sig_key(sig):
    return json.dumps(sig, sort_keys=True)


class Reporter:
    """Collects violations (each with a signature), applies the known-findings file, prints the
    interface lines, writes replay files and the evidence file, and returns the exit code."""

    def __init__(self, prop, tier, level):
        self.prop = prop
        self.tier = tier
        self.level = level
        self.t0 = time.time()
        self.violations = {}     # sig_key -> dict(sig=..., replay=obj, count=n)
        self.coverage = {}
        self.assumptions = []
        self.known = [k for k in load_known() if k.get("property") == prop]

    def violation(self, sig, replay):
        k = sig_key(sig)
        if k in self.violations:
            self.violations[k]["count"] += 1
        else:
            self.violations[k] = {"sig": sig, "replay": replay, "count": 1}

    def finish(self):
        os.makedirs(EVIDENCE, exist_ok=True)
        rdir = os.path.join(REPLAY, self.prop)
        shutil.rmtree(rdir, ignore_errors=True)
        known_open = {sig_key(k["sig"]): k for k in self.known if k.get("status") == "known"}
        new = 0
        printed_known = set()
        for k, v in sorted(self.violations.items()):
            if k in known_open:
                if k not in printed_known:
                    printed_known.add(k)
                    print("KNOWN-FINDING: property=%s %s (%d occurrences)" % (self.prop, known_open[k].get("what", k), v["count"]))
                continue
            new += 1
            os.makedirs(rdir, exist_ok=True)
            path = os.path.join(rdir, hashlib.sha1(k.encode()).hexdigest()[:16] + ".json")
            with open(path, "w") as f:
                json.dump({"property": self.prop, "sig": v["sig"], "occurrences": v["count"], "replay": v["replay"]}, f, indent=1, ensure_ascii=False)
            print("VIOLATION property=%s replay=%s  sig=%s occurrences=%d" % (self.prop, path, json.dumps(v["sig"], sort_keys=True), v["count"]))
        ev = {
            "property_id": self.prop,
            "tier": self.tier,
            "seed": seed(),
            "level": self.level,
            "coverage": self.coverage,
            "assumptions": self.assumptions,
            "wall_s": round(time.time() - self.t0, 2),
            "violations": new,
        }
        ev["coverage"]["known_findings_matched"] = len(printed_known)
        with open(os.path.join(EVIDENCE, self.prop + ".json"), "w") as f:
            json.dump(ev, f, indent=1, ensure_ascii=False)
        print("%s %s: %s in %.1fs (violations=%d, known=%d)" % (self.prop, self.tier, "HELD" if new == 0 else "VIOLATED", time.time() - self.t0, new, len(printed_known)))
        return 0 if new == 0 else 1
