"""C17: every generated test vector is labelled with its true (strict) metamodel validity.

The real CLI writes the corpus; every file becomes one Emit event judged by Vectors.tla
(three-valued strict validity computed from the working-tree metamodel)."""
import concurrent.futures as cf
import json
import math
import os
import re
import shutil
import subprocess
import sys

from . import common

NAME_RE = re.compile(r"^(?P<cls>[A-Za-z_][A-Za-z0-9_]*)-(?P<label>True|False)-(?P<hash>[0-9a-f]{64})\.json$")
CHUNK = 6 * 1024 * 1024


def enc(v):
    """JSON -> tagged node, floats kept apart from ints (1.0 is not 1 here)."""
    if v is None:
        return {"k": "null"}
    if v is True or v is False:
        return {"k": "bool", "b": v}
    if isinstance(v, int):
        if -10 ** 9 <= v <= 10 ** 9:
            return {"k": "int", "i": v}
        return {"k": "big", "g": [1 if v >= 0 else -1] + [int(c) for c in str(abs(v))]}
    if isinstance(v, float):
        return {"k": "dec", "x": repr(v), "integral": bool(math.isfinite(v) and v == int(v))}
    if isinstance(v, str):
        return {"k": "str", "s": v}
    if isinstance(v, list):
        return {"k": "arr", "a": [enc(x) for x in v]}
    return {"k": "obj", "f": {k: enc(x) for k, x in v.items()}}


WORKER = r'''
import json, sys
sys.path.insert(0, sys.argv[4])
from harness.check_c17 import enc, NAME_RE, CHUNK
from lsprotocol import converters, types
import os
conv = converters.get_converter()
cmap = {}
for m, tup in types.METHOD_TO_TYPES.items():
    req, resp = tup[0], tup[1]
    kind = "request" if resp is not None else "notification"
    cmap[req.__name__] = (kind, m, req)
    if resp is not None:
        cmap[resp.__name__] = ("response", m, resp)
files = json.load(open(sys.argv[1]))
outbase = sys.argv[2]
root = sys.argv[3]
chunks, cur, size, bad_names = [], [], 0, []
def flush():
    global cur, size
    if cur:
        p = "%s.%d" % (outbase, len(chunks))
        open(p, "w", encoding="utf-8").write("[" + ",".join(cur) + "]")
        chunks.append({"path": p, "n": len(cur)})
        cur, size = [], 0
skipped = 0
for name in files:
    always = True
    if isinstance(name, list):
        name, always = name
    m = NAME_RE.match(name)
    if not m or m.group("cls") not in cmap:
        bad_names.append(name)
        continue
    kind, method, cls = cmap[m.group("cls")]
    data = json.load(open(os.path.join(root, name), encoding="utf-8"))
    label = m.group("label") == "True"
    ok = True
    if not always:
        # selection only (TLC stays the judge): a False vector outside the sample is handed to TLC when the
        # package itself accepts it - that is where a wrong False label would show
        try:
            conv.structure(data, cls)
        except BaseException:
            skipped += 1
            continue
    if label:
        try:
            conv.structure(data, cls)
        except BaseException:
            ok = False
    txt = json.dumps({"name": name, "kind": kind, "method": method, "label": label, "ok": ok, "j": enc(data)}, ensure_ascii=False)
    cur.append(txt)
    size += len(txt)
    if size > CHUNK:
        flush()
flush()
print(json.dumps({"chunks": chunks, "bad_names": bad_names, "skipped": skipped, "classes": sorted((k, m) for k, m, _ in cmap.values())}))
'''


def process(args):
    files, idx, root, work, model = args
    fl = os.path.join(work, "files-%d.json" % idx)
    json.dump(files, open(fl, "w"))
    env = dict(os.environ, PYTHONPATH=os.path.join(common.REPO, "packages", "python") + os.pathsep + common.VERIF, PYTHONHASHSEED="0")
    p = subprocess.run([common.PY, "-c", WORKER, fl, os.path.join(work, "vec-%d" % idx), root, common.VERIF], env=env,
                       stdout=subprocess.PIPE, stderr=subprocess.PIPE)
    if p.returncode != 0:
        raise common.MachineryError("vector worker failed:\n" + p.stderr.decode()[-2000:])
    info = json.loads(p.stdout.decode().strip().splitlines()[-1])
    fails, seen, unspec, n = [], set(), 0, 0
    for ch in info["chunks"]:
        rc, out = common.run_tlc("Vectors", "CONSTANTS NEvents = %d\nINIT TInit\nNEXT TStep\nPOSTCONDITION AllConsumed\nCHECK_DEADLOCK FALSE\n" % ch["n"],
                                 env={"LSP_MODEL": model, "VEC_TRACE": ch["path"]}, heap="3g")
        if '"@DONE' not in out:
            raise common.MachineryError("Vectors.tla did not consume chunk %s:\n%s" % (ch["path"], out[-2500:]))
        n += ch["n"]
        recs = None
        fl_ = list(common.tagged_lines(out, "@F"))
        if fl_:
            recs = json.load(open(ch["path"], encoding="utf-8"))
            for f in fl_:
                r = recs[f["l"] - 1]
                fails.append({"c": f["c"], "verdict": f["verdict"], "vector": r})
        unspec += sum(1 for _ in common.tagged_lines(out, "@U"))
        for t in common.tagged_lines(out, "@T"):
            for pair in t:
                seen.add((pair[0], pair[1]))
        os.unlink(ch["path"])
    return {"fails": fails, "seen": sorted(seen), "unspec": unspec, "n": n, "bad_names": info["bad_names"], "classes": info["classes"], "skipped": info.get("skipped", 0)}


def where(vec, verdict):
    """A coarse position for the signature: message class and which envelope part is at fault is not
    computed by TLC; use class + label."""
    return "%s:%s" % (vec["kind"], vec["method"])


def check(tier, model=None):
    rep = common.Reporter("C17", tier, "model_checking")
    model = model or os.path.join(common.REPO, "generator", "lsp.json")
    work = common.scratch("c17-")
    try:
        out = os.path.join(work, "out")
        os.makedirs(out)
        env = dict(os.environ, PYTHONPATH=common.REPO, PYTHONHASHSEED=str(common.seed()))
        p = subprocess.run([common.PY, "-m", "generator", "--model", model, "--plugin", "testdata", "--output-dir", out, "--test-dir", os.path.join(work, "t")],
                           cwd=common.REPO, env=env, stdout=subprocess.DEVNULL, stderr=subprocess.PIPE, timeout=1800)
        if p.returncode != 0:
            rep.violation({"clause": "V_plugin_failed"}, {"stderr": p.stderr.decode()[-1500:]})
            names = []
        else:
            names = sorted(os.listdir(out))
        total = len(names)
        bad_pattern = [n for n in names if not NAME_RE.match(n)]
        for n in bad_pattern[:20]:
            rep.violation({"clause": "V_name", "name": n[:60]}, {"file": n})
        good = [n for n in names if NAME_RE.match(n)]
        # every vector is judged in both tiers (about a minute); a sampling quick tier missed a seeded change that
        # mislabelled 6 of 74,156 vectors.  The worker still knows how to pre-select ([name, always] entries).
        sel = good
        nproc = common.NCPU
        parts = [sel[i::nproc] for i in range(nproc)]
        with cf.ThreadPoolExecutor(max_workers=nproc) as ex:
            res = list(ex.map(process, [(pt, i, out, work, model) for i, pt in enumerate(parts) if pt]))
    finally:
        shutil.rmtree(work, ignore_errors=True)
    seen, classes, n, unspec, skipped = set(), set(), 0, 0, 0
    for r in res:
        n += r["n"]
        skipped += r.get("skipped", 0)
        unspec += r["unspec"]
        seen |= {tuple(x) for x in r["seen"]}
        classes |= {tuple(x) for x in r["classes"]}
        for b in r["bad_names"][:5]:
            rep.violation({"clause": "V_unknown_class", "name": b.split("-")[0]}, {"file": b})
        for f in r["fails"]:
            for clause in f["c"]:
                rep.violation({"clause": clause, "class": where(f["vector"], f["verdict"])}, {"verdict": f["verdict"], "vector": f["vector"]})
    for c in sorted(classes - seen):
        rep.violation({"clause": "V_no_true_vector", "class": "%s:%s" % c}, {"class": c})
    sample = []
    rep.coverage.update({"states": n + 1, "transitions": n, "traces_validated_against_impl": n, "files_written_by_plugin": total, "false_vectors_not_judged_in_this_tier": skipped,
                         "vectors_judged": n, "verdict_unspecified": unspec, "message_classes": len(classes), "classes_with_valid_true_vector": len(seen & classes),
                         "exhaustive": tier == "thorough",
                         "rule": "the real CLI writes the corpus; every vector is judged in both tiers; file names checked on all files; Strict3 evaluated by TLC per vector; unspecified zones (integral float at integer position, params:null without params, extension keys on property-less structures) demand no label",
                         "samples": [{"file_name_pattern": NAME_RE.pattern}, {"first_files": names[:2]}]})
    rep.assumptions = ["class name -> (kind, method) through the Python package's METHOD_TO_TYPES (checked by C09)", "float-preserving JSON encoding of harness/check_c17.py"]
    return rep
