"""Replays TLC-generated states of Codec.tla into the real converter and records sessions.

Input : a file of "@S {...}" lines printed by TLC (one per distinct state of the value graph).
Output: a JSON file {"norm": {...}, "sessions": [...]} that CodecTrace.tla validates.

The driver takes no decision.  Every public call (constructor, structure, unstructure) is one
event, logged at its return (also on the error path) with everything it returned.
"""
import json
import os
import sys

from . import pyside
from .pyside import canon, decode, encode, project


def _is_union(ann, depth=0):
    """Is the annotation a union with several non-None members, or a container of one?"""
    import typing
    if depth > 6:
        return False
    if getattr(ann, "__origin__", None) is typing.Union:
        if len([a for a in ann.__args__ if a is not type(None)]) > 1:
            return True
    return any(_is_union(a, depth + 1) for a in getattr(ann, "__args__", ()) or ())


def exc_info(e):
    """(exception class name, type-level position of the innermost failing attribute, text,
    whether that attribute is annotated with a union)."""
    pos = ""
    atunion = False
    leaf = e
    try:
        from cattrs.errors import ClassValidationError, IterableValidationError
        cur = e
        for _ in range(64):
            if isinstance(cur, ClassValidationError) and cur.exceptions:
                sub = cur.exceptions[0]
                note = None
                for n in getattr(sub, "__notes__", []):
                    if hasattr(n, "name"):
                        note = n
                if note is not None:
                    pos = "%s.%s" % (getattr(cur.cl, "__name__", "?"), note.name)
                    atunion = atunion or _is_union(getattr(note, "type", None))   # sticky: the path went through a union
                cur = sub
                leaf = sub
                continue
            if isinstance(cur, IterableValidationError) and cur.exceptions:
                sub = cur.exceptions[0]
                for n in getattr(sub, "__notes__", []):
                    if hasattr(n, "type"):
                        atunion = atunion or _is_union(n.type)
                cur = sub
                leaf = cur
                continue
            break
    except Exception:
        pass
    text = ("%s" % (leaf,)).replace("\n", " ")[:160]
    if type(leaf).__name__ == "StructureHandlerNotFoundError" or "disambiguat" in text:
        atunion = True
    return type(leaf).__name__, pos, text, atunion


class Runner:
    def __init__(self):
        self.pkg = pyside.Package()

    def ev_structure(self, j, cls, root, live=None):
        """live: hand the converter this Python object (what unstructure() returned, untouched) instead of decode(j);
        j stays the JSON it serialises to."""
        ev = {"e": "Structure", "j": j, "reqcls": cls.__name__}
        if live is not None:
            payload = live
        else:
            payload = decode(j)
            if root["kind"] == "alias":
                payload = {"value": payload}
        try:
            obj = self.pkg.conv.structure(payload, cls)
        except BaseException as e:                 # noqa: BLE001 - every outcome is an observation
            if isinstance(e, (KeyboardInterrupt, SystemExit, MemoryError)):
                raise
            name, pos, text, atunion = exc_info(e)
            ev.update(ok=False, exc=name, pos=pos, msg=text, atunion=atunion, p={"k": "none"})
            return ev, None
        p = project(obj)
        if root["kind"] == "alias":
            p = p["p"]["value"] if p.get("k") == "inst" and "value" in p.get("p", {}) else {"k": "opaque", "s": "holder"}
        ev.update(ok=True, exc="", pos="", msg="", atunion=False, p=p)
        return ev, obj

    def ev_unstructure(self, obj, cls, root, raw=False):
        ev = {"e": "Unstructure"}
        live = None
        try:
            # the observation is "unstructure followed by json.dumps" (what reaches the wire)
            live = self.pkg.conv.unstructure(obj, cls)
            w = json.loads(json.dumps(live))
        except BaseException as e:                 # noqa: BLE001
            if isinstance(e, (KeyboardInterrupt, SystemExit, MemoryError)):
                raise
            name, pos, text, _ = exc_info(e)
            ev.update(ok=False, exc=name, pos=pos, msg=text, w={"k": "null"})
            return ev, None
        raw = w
        if root["kind"] == "alias":
            w = w.get("value") if isinstance(w, dict) else w
        ev.update(ok=True, exc="", pos="", msg="", w=encode(w))
        return ev, (live if raw else w)

    def ev_construct(self, o, root, share=False):
        ev = {"e": "Construct", "o": o}
        try:
            memo = {} if share else None
            if root["kind"] == "alias":
                obj = self.pkg.holder(root["name"])(value=self.pkg.build(o, memo=memo))
            else:
                obj = self.pkg.build(o, memo=memo)
        except LookupError as e:                   # harness could not map a property to a keyword
            ev.update(ok=False, exc="HarnessLookupError", pos="", msg=str(e)[:160])
            return ev, None
        except BaseException as e:                 # noqa: BLE001
            if isinstance(e, (KeyboardInterrupt, SystemExit, MemoryError)):
                raise
            name, pos, text, _ = exc_info(e)
            ev.update(ok=False, exc=name, pos=pos, msg=text)
            return ev, None
        ev.update(ok=True, exc="", pos="", msg="")
        return ev, obj

    def ev_assign_literal(self, o, name, root):
        """A string-literal attribute of a LIVE object (built with the literal left to its default) is assigned the deviating
        string of the `lit` variant: "only accepts its literal" also on assignment."""
        props = dict(pyside.fun(o["p"]))
        if name not in props:
            return None
        bad = props.pop(name)
        base = dict(o)
        base["p"] = props
        evc, obj = self.ev_construct(base, root)
        if not evc["ok"]:
            return None
        ev = {"e": "Assign", "name": name, "o": o}
        try:
            a = self.pkg.attr_map(type(obj)).get(pyside.norm(name))
            if a is None:
                return None
            setattr(obj, a.name, decode(bad))
            ev.update(ok=True, exc="", pos="", msg="")
        except BaseException as e:                 # noqa: BLE001
            if isinstance(e, (KeyboardInterrupt, SystemExit, MemoryError)):
                raise
            n_, pos, text, _ = exc_info(e)
            ev.update(ok=False, exc=n_, pos=pos, msg=text)
        return ev

    def mutate_session(self, o, fr, cls, root):
        """An edge of the value graph as an assignment on a live object: build the object BEFORE the refinement,
        serialise it, assign the one top-level attribute the refinement changed, serialise again."""
        name = fr["name"]
        before = dict(o)
        props = dict(pyside.fun(o["p"]))
        new_has = name in props
        if fr["had"]:
            props[name] = canon(fr["v"])
        else:
            props.pop(name, None)
        before["p"] = props
        evs = []
        ev, obj = self.ev_construct(before, root)
        evs.append(ev)
        if not ev["ok"]:
            return None                      # the predecessor is judged by its own ctor session
        ev2, _ = self.ev_unstructure(obj, cls, root)
        evs.append(ev2)
        if not ev2["ok"]:
            return None
        ev3 = {"e": "Assign", "name": name, "o": o}
        try:
            a = self.pkg.attr_map(type(obj)).get(pyside.norm(name))
            if a is None:
                return None
            value = self.pkg.build(pyside.fun(o["p"])[name], a.type) if new_has else None
            setattr(obj, a.name, value)
            ev3.update(ok=True, exc="", pos="", msg="")
        except LookupError:
            return None
        except BaseException as e:                 # noqa: BLE001
            if isinstance(e, (KeyboardInterrupt, SystemExit, MemoryError)):
                raise
            n_, pos, text, _ = exc_info(e)
            ev3.update(ok=False, exc=n_, pos=pos, msg=text)
            evs.append(ev3)
            return evs
        evs.append(ev3)
        ev4, _ = self.ev_unstructure(obj, cls, root)
        evs.append(ev4)
        return evs

    def round_trip_tail(self, events, obj, cls, root):
        """Unstructure -> Structure(output) -> Unstructure, stopping at the first failure."""
        # the output is structured again AS IT WAS RETURNED (no JSON dump / load in between: an application may pass it on
        # inside the process), j2 being what it serialises to
        ev, live = self.ev_unstructure(obj, cls, root, raw=True)
        events.append(ev)
        if not ev["ok"]:
            return
        j2 = ev["w"]
        if _has_opaque(j2):
            return
        ev2, obj2 = self.ev_structure(j2, cls, root, live=live)
        events.append(ev2)
        if not ev2["ok"]:
            return
        ev3, _ = self.ev_unstructure(obj2, cls, root)
        events.append(ev3)

    def sessions_for(self, st):
        root = st["root"]
        var = st["var"]
        vk = var["vk"]
        o = canon(st["o"])
        w = canon(st["w"])
        cls = self.pkg.root_class(root)
        out = []

        def session(kind, events):
            out.append({"sk": kind, "root": root, "var": var if "name" in var else {"vk": vk, "name": ""},
                        "d": st["d"], "ev": events})

        if vk in ("long", "deepen"):
            o, w = pad_long(o, w, var["path"], LONG_PAD) if vk == "long" else deepen(o, w, var["name"], DEEP_PAD, self.pkg)
            evs = []
            ev, obj = self.ev_structure(w, cls, root)
            evs.append(ev)
            if ev["ok"]:
                self.round_trip_tail(evs, obj, cls, root)
            session("parse", evs)
            evs = []
            ev, obj = self.ev_construct(o, root)
            evs.append(ev)
            if ev["ok"]:
                self.round_trip_tail(evs, obj, cls, root)
            session("ctor", evs)
        elif vk == "none":
            evs = []
            ev, obj = self.ev_structure(w, cls, root)
            evs.append(ev)
            if ev["ok"]:
                self.round_trip_tail(evs, obj, cls, root)
            session("parse", evs)
            if st["d"] <= 1 and evs[0]["ok"]:
                # the same input parsed again after the first parsed object was wrecked in place: nothing mutable may
                # be shared between the results of two structure() calls (module-level defaults, cached containers)
                ev1, obj1 = self.ev_structure(w, cls, root)
                if ev1["ok"]:
                    n = scramble(obj1)
                    ev3, obj3 = self.ev_structure(w, cls, root)
                    evs2 = [ev1, {"e": "Scramble", "n": n}, ev3]
                    if ev3["ok"]:
                        evs2.append(self.ev_unstructure(obj3, cls, root)[0])
                    session("reparse", evs2)
            evs = []
            ev, obj = self.ev_construct(o, root)
            evs.append(ev)
            if ev["ok"]:
                self.round_trip_tail(evs, obj, cls, root)
            session("ctor", evs)
            if st["d"] <= 1 and evs[0]["ok"]:
                # what unstructure() returns shares nothing with the object (or with an earlier result): serialise, wreck the
                # returned JSON in place, serialise again - the object was built with EQUAL sub-objects being ONE instance
                ev1, obj1 = self.ev_construct(o, root, share=True)
                if ev1["ok"]:
                    ev2, raw = self.ev_unstructure(obj1, cls, root, raw=True)
                    evs2 = [ev1, ev2]
                    if ev2["ok"]:
                        evs2.append({"e": "Scramble", "n": scramble_guided(raw.get("value") if root["kind"] == "alias" and isinstance(raw, dict) else raw, o)})
                        evs2.append(self.ev_unstructure(obj1, cls, root)[0])
                    session("reunstructure", evs2)
            fr = st.get("fr") or {}
            # (an always-written property that the new state leaves unset is still on the wire: "unsetting" a literal or
            # null-admitting attribute is not an assignment of a value of its type)
            unset_special = fr.get("name") and fr["name"] not in pyside.fun(o.get("p", {})) and fr["name"] in pyside.fun(w.get("f", {}))
            if fr.get("name") and st["d"] == 1 and o.get("k") == "inst" and root["kind"] != "alias" and not unset_special:
                evs = self.mutate_session(o, fr, cls, root)
                if evs:
                    session("mutate", evs)
        elif vk in ("dropreq", "enum", "nested"):
            ev, _ = self.ev_structure(w, cls, root)
            session(vk, [ev])
        elif vk in ("intval", "lit"):
            ev, _ = self.ev_structure(w, cls, root)
            ev2, _ = self.ev_construct(o, root)
            evs = [ev, ev2]
            if vk == "lit":
                ev3 = self.ev_assign_literal(o, var["name"], root)
                if ev3:
                    evs.append(ev3)
            session(vk, evs)
        elif vk == "dropspecial":
            evs = []
            ev, obj = self.ev_structure(w, cls, root)
            evs.append(ev)
            if ev["ok"]:
                ev2, _ = self.ev_unstructure(obj, cls, root)
                evs.append(ev2)
            session(vk, evs)
        elif vk == "unk":
            base = canon(st["bw"])
            evs = []
            ev, obj = self.ev_structure(base, cls, root)
            evs.append(ev)
            if ev["ok"]:
                ev2, _ = self.ev_unstructure(obj, cls, root)
                evs.append(ev2)
                ev3, obj3 = self.ev_structure(w, cls, root)
                evs.append(ev3)
                if ev3["ok"]:
                    ev4, _ = self.ev_unstructure(obj3, cls, root)
                    evs.append(ev4)
            session(vk, evs)
        return out


    def rerun(self, sess):
        """Replay one recorded session from its recorded inputs (used by --replay)."""
        root, sk, evs = sess["root"], sess["sk"], sess["ev"]
        cls = self.pkg.root_class(root)
        out = []
        if sk in ("parse", "dropspecial", "dropreq", "enum", "nested"):
            ev, obj = self.ev_structure(evs[0]["j"], cls, root)
            out.append(ev)
            if ev["ok"] and sk == "parse":
                self.round_trip_tail(out, obj, cls, root)
            elif ev["ok"] and sk == "dropspecial":
                out.append(self.ev_unstructure(obj, cls, root)[0])
        elif sk == "ctor":
            ev, obj = self.ev_construct(evs[0]["o"], root)
            out.append(ev)
            if ev["ok"]:
                self.round_trip_tail(out, obj, cls, root)
        elif sk in ("intval", "lit"):
            out.append(self.ev_structure(evs[0]["j"], cls, root)[0])
            out.append(self.ev_construct(evs[1]["o"], root)[0])
            if len(evs) > 2 and evs[2]["e"] == "Assign":
                ev3 = self.ev_assign_literal(evs[2]["o"], evs[2]["name"], root)
                if ev3:
                    out.append(ev3)
        elif sk == "reunstructure":
            ev1, obj1 = self.ev_construct(evs[0]["o"], root, share=True)
            out.append(ev1)
            if ev1["ok"]:
                ev2, raw = self.ev_unstructure(obj1, cls, root, raw=True)
                out.append(ev2)
                if ev2["ok"]:
                    out.append({"e": "Scramble", "n": scramble_guided(raw.get("value") if root["kind"] == "alias" and isinstance(raw, dict) else raw, evs[0]["o"])})
                    out.append(self.ev_unstructure(obj1, cls, root)[0])
        elif sk == "reparse":
            ev1, obj1 = self.ev_structure(evs[0]["j"], cls, root)
            out.append(ev1)
            if ev1["ok"]:
                out.append({"e": "Scramble", "n": scramble(obj1)})
                ev3, obj3 = self.ev_structure(evs[0]["j"], cls, root)
                out.append(ev3)
                if ev3["ok"]:
                    out.append(self.ev_unstructure(obj3, cls, root)[0])
        elif sk == "mutate":
            before, name = evs[0]["o"], next(e["name"] for e in evs if e["e"] == "Assign")
            after = next(e["o"] for e in evs if e["e"] == "Assign")
            bp = pyside.fun(before["p"])
            out = self.mutate_session(after, {"name": name, "had": name in bp, "v": bp.get(name)}, cls, root) or []
        elif sk == "unk":
            ev, obj = self.ev_structure(evs[0]["j"], cls, root)
            out.append(ev)
            if ev["ok"]:
                out.append(self.ev_unstructure(obj, cls, root)[0])
                if len(evs) >= 3:
                    ev3, obj3 = self.ev_structure(evs[2]["j"], cls, root)
                    out.append(ev3)
                    if ev3["ok"]:
                        out.append(self.ev_unstructure(obj3, cls, root)[0])
        return {"sid": 1, "sk": sk, "root": root, "var": sess["var"], "d": sess.get("d", 0), "ev": out}


LONG_PAD = int(os.environ.get("VERIF_LONG_PAD", "130"))


def pad_long(o, w, path, n):
    """The `long` variant of Codec.tla: n more copies of the first element in front of the array at `path`, on the
    abstract object and on the wire form alike (inst: property name, arr / tup: index, map: key)."""
    import copy
    o, w = copy.deepcopy(o), copy.deepcopy(w)
    on, wn = o, w
    for step in pyside.seq(path):
        k = on["k"]
        if k == "inst":
            on = pyside.fun(on["p"])[step]
            wn = pyside.fun(wn["f"])[step]
        elif k in ("arr", "tup"):
            on = pyside.seq(on["a"])[int(step) - 1]
            wn = pyside.seq(wn["a"])[int(step) - 1]
        elif k == "map":
            on = pyside.fun(on["f"])[step]
            wn = pyside.fun(wn["f"])[step]
        else:
            raise ValueError("path does not lead to an array")
    if on["k"] == "map":
        of, wf = pyside.fun(on["f"]), pyside.fun(wn["f"])
        k0 = sorted(of)[0]
        for i in range(n):
            of["k%03d" % i] = copy.deepcopy(of[k0])
            wf["k%03d" % i] = copy.deepcopy(wf[k0])
        on["f"], wn["f"] = of, wf
        return o, w
    oa, wa = pyside.seq(on["a"]), pyside.seq(wn["a"])
    on["a"] = [copy.deepcopy(oa[0]) for _ in range(n)] + list(oa)
    wn["a"] = [copy.deepcopy(wa[0]) for _ in range(n)] + list(wa)
    return o, w


DEEP_PAD = int(os.environ.get("VERIF_DEEP_PAD", "40"))


def deepen(o, w, name, n, pkg):
    """The `deepen` variant of Codec.tla: the value nested into itself n times along property `name` (which holds an
    instance of the root's class, directly or as the single element of an array)."""
    import copy
    wire_name = name
    inner_o, inner_w = copy.deepcopy(o), copy.deepcopy(w)
    for _ in range(n):
        outer_o, outer_w = copy.deepcopy(o), copy.deepcopy(w)
        po, pw = pyside.fun(outer_o["p"]), pyside.fun(outer_w["f"])
        if po[name]["k"] == "arr":
            po[name]["a"] = [inner_o]
            pw[wire_name]["a"] = [inner_w]
        else:
            po[name] = inner_o
            pw[wire_name] = inner_w
        inner_o, inner_w = outer_o, outer_w
    return inner_o, inner_w


def scramble(obj, depth=0, seen=None):
    """Wreck a parsed object in place: every list gets a foreign element, every dict a foreign key, every attribute
    of every attrs instance that holds a container or instance is visited.  Returns the number of changes."""
    import attrs
    seen = seen if seen is not None else set()
    if id(obj) in seen or depth > 12:
        return 0
    seen.add(id(obj))
    n = 0
    if isinstance(obj, list):
        for x in list(obj):
            n += scramble(x, depth + 1, seen)
        obj.append("verif-scrambled")
        n += 1
    elif isinstance(obj, dict):
        for x in list(obj.values()):
            n += scramble(x, depth + 1, seen)
        obj["verif-scrambled"] = "verif-scrambled"
        n += 1
    elif isinstance(obj, tuple):
        for x in obj:
            n += scramble(x, depth + 1, seen)
    elif attrs.has(type(obj)):
        for a in attrs.fields(type(obj)):
            n += scramble(getattr(obj, a.name, None), depth + 1, seen)
    return n


def scramble_guided(raw, o):
    """Wreck the JSON unstructure() returned, in place, but only the containers the converter itself must have built:
    those that correspond to instances, arrays, tuples and maps of the abstract object.  LSPAny payloads are handed
    through by cattrs as they are (the caller's own objects) - the statements are silent about that."""
    k = o.get("k")
    n = 0
    if k == "inst" and isinstance(raw, dict):
        for name, sub in pyside.fun(o["p"]).items():
            if name in raw:
                n += scramble_guided(raw[name], sub)
        raw["verif-scrambled"] = "verif-scrambled"
        n += 1
    elif k in ("arr", "tup") and isinstance(raw, list):
        subs = pyside.seq(o["a"])
        for x, sub in zip(raw, subs):
            n += scramble_guided(x, sub)
        if any(s_.get("k") != "any" for s_ in subs):     # LSPArray / LSPObject containers are the caller's own, too
            raw.append("verif-scrambled")
            n += 1
    elif k == "map" and isinstance(raw, dict):
        subs = pyside.fun(o["f"])
        for key, sub in subs.items():
            if key in raw:
                n += scramble_guided(raw[key], sub)
        if any(s_.get("k") != "any" for s_ in subs.values()):
            raw["verif-scrambled"] = "verif-scrambled"
            n += 1
    return n


def _has_opaque(n):
    k = n.get("k")
    if k == "opaque":
        return True
    if k == "arr":
        return any(_has_opaque(x) for x in n["a"])
    if k == "obj":
        return any(_has_opaque(x) for x in n["f"].values())
    return False


def norm_table(model_path):
    """norm() of every property name of the metamodel and of the envelope fields."""
    names = {"id", "params", "method", "jsonrpc", "result", "error", "code", "message", "data", "value"}

    def walk(t):
        if not isinstance(t, dict):
            return
        if t.get("kind") == "literal":
            for p in t["value"]["properties"]:
                names.add(p["name"])
                walk(p["type"])
        for key in ("element", "key", "value"):
            if isinstance(t.get(key), dict):
                walk(t[key])
        for it in t.get("items", []) or []:
            walk(it)

    m = json.load(open(model_path))
    for s in m.get("structures", []):
        for p in s["properties"]:
            names.add(p["name"])
            walk(p["type"])
    for a in m.get("typeAliases", []):
        walk(a["type"])
    for r in m.get("requests", []) + m.get("notifications", []):
        for key in ("params", "result", "partialResult", "registrationOptions", "errorData"):
            if isinstance(r.get(key), dict):
                walk(r[key])
    return {n: pyside.norm(n) for n in sorted(names)}


CHUNK_BYTES = 8 * 1024 * 1024


# what a replay needs to reproduce the process the session ran in
RUN_ENV = {"cfg": os.environ.get("VERIF_CONV_CFG", "default"), "hs": os.environ.get("PYTHONHASHSEED", "0"), "O": os.environ.get("PYTHONOPTIMIZE", ""), "W": os.environ.get("PYTHONWARNINGS", "")}


def main(argv):
    """states file -> trace chunk files <out>.<n> (bounded size, so that TLC's JsonDeserialize
    never sees a huge document); prints one JSON line describing the chunks."""
    states_path, out_path, model_path = argv[1], argv[2], argv[3]
    from .common import tagged_lines
    r = Runner()
    table = norm_table(model_path)
    chunks = []
    cur, size, n = [], 0, 0
    by_kind = {}

    def flush():
        nonlocal cur, size
        if not cur:
            return
        path = "%s.%d" % (out_path, len(chunks))
        with open(path, "w", encoding="utf-8") as f:
            f.write('{"norm": %s, "sessions": [%s]}' % (json.dumps(table), ",".join(cur)))
        chunks.append({"path": path, "sessions": len(cur), "events": sum(c.count('"e": "') for c in cur)})
        cur, size = [], 0

    for st in tagged_lines(states_path, "@S", is_path=True):
        for s in r.sessions_for(st):
            n += 1
            s["sid"] = len(cur) + 1
            s["env"] = RUN_ENV
            by_kind[s["sk"]] = by_kind.get(s["sk"], 0) + 1
            nev = len(s["ev"])
            txt = json.dumps(s, ensure_ascii=False)
            cur.append(txt)
            chunks_ev = nev
            size += len(txt)
            if size >= CHUNK_BYTES:
                flush()
    flush()
    print(json.dumps({"chunks": chunks, "by_kind": by_kind}))


if __name__ == "__main__":
    main(sys.argv)
