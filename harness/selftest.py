"""Demonstrates the binding between the trace specifications and the recorded observations:
for every trace spec a trace recorded from the real code is accepted, and the same trace with ONE
recorded field corrupted is rejected with the expected clause.  Not a registered check; run with
`bin/selftest` (about 2 minutes).  Exit 0 when every corruption was caught."""
import copy
import json
import os
import shutil
import subprocess
import sys

from . import check_c17, check_c18, check_c19, check_c20, check_gen, check_image, check_srcimage, codec_check, common, emit_order
from .pyside import encode

OK, BAD = [], []


def expect(name, fails, clause):
    got = sorted({c for f in fails for c in (f["c"] if isinstance(f["c"], list) else [f["c"]])})
    if clause is None:
        (OK if not got else BAD).append("%s: accepted as recorded%s" % (name, "" if not got else " - UNEXPECTED " + str(got)))
    else:
        (OK if clause in got else BAD).append("%s: corruption %s -> %s" % (name, "caught (" + clause + ")" if clause in got else "MISSED", got))


def codec(work):
    model = os.path.join(common.REPO, "generator", "lsp.json")
    states = os.path.join(work, "st.txt")
    common.run_tlc("Codec", codec_check.gen_cfg(1, 1, 1, 0, "named", names=("Position", "CreateFile", "Hover")), env={"LSP_MODEL": model}, out_path=states)
    trace = os.path.join(work, "tr.json")
    p = subprocess.run([common.PY, "-m", "harness.codec_driver", states, trace, model], cwd=common.VERIF,
                       env=codec_check.pkg_env(os.path.join(common.REPO, "packages", "python")), stdout=subprocess.PIPE, stderr=subprocess.PIPE)
    info = json.loads(p.stdout.decode().strip().splitlines()[-1])
    doc = json.load(open(info["chunks"][0]["path"]))

    def judge(d):
        tp = os.path.join(work, "t2.json")
        json.dump(d, open(tp, "w"))
        nev = sum(len(s["ev"]) for s in d["sessions"])
        rc, out = common.run_tlc("CodecTrace", codec_check.trace_cfg(len(d["sessions"]), nev), env={"LSP_MODEL": model, "CODEC_TRACE": tp})
        assert '"@DONE' in out, out[-1500:]
        return list(common.tagged_lines(out, "@F"))
    expect("CodecTrace", judge(doc), None)
    parse = next(i for i, s in enumerate(doc["sessions"]) if s["sk"] == "parse" and s["root"]["name"] == "Position")
    ctor = next(i for i, s in enumerate(doc["sessions"]) if s["sk"] == "ctor" and s["root"]["name"] == "CreateFile")
    d = copy.deepcopy(doc)
    del d["sessions"][parse]["ev"][1]["w"]["f"]["line"]                       # a key dropped from the recorded output
    expect("CodecTrace parse output", judge(d), "U_lossless")
    d = copy.deepcopy(doc)
    d["sessions"][parse]["ev"][0]["ok"] = False                              # a recorded verdict flipped
    d["sessions"][parse]["ev"] = d["sessions"][parse]["ev"][:1]
    expect("CodecTrace structure verdict", judge(d), "S_ok")
    d = copy.deepcopy(doc)
    d["sessions"][parse]["ev"][0]["p"]["cls"] = "Range"                      # a class name changed in the projection
    expect("CodecTrace projection class", judge(d), "S_typed")
    d = copy.deepcopy(doc)
    d["sessions"][ctor]["ev"][1]["w"]["f"].pop("kind", None)                 # the literal discriminator missing from the ctor output
    expect("CodecTrace ctor output", judge(d), "U_keys")
    mut = next((i for i, s in enumerate(doc["sessions"]) if s["sk"] == "mutate" and len(s["ev"]) == 4), None)
    if mut is None:
        BAD.append("CodecTrace: no mutate session was recorded")
    else:
        d = copy.deepcopy(doc)
        d["sessions"][mut]["ev"][3]["w"] = d["sessions"][mut]["ev"][1]["w"]   # the output after the assignment replaced by the one before it
        expect("CodecTrace output after assignment", judge(d), "U_exact")


def machine(work):
    hists = [{"init": [[1, 1], [1, 1]], "hist": [{"a": "cmp", "o": 1, "p": 2}, {"a": "set", "o": 1, "f": "line", "v": 2}, {"a": "cmp", "o": 1, "p": 2}, {"a": "cmpr", "w": "swap"}]}]
    hp, tp = os.path.join(work, "mh.json"), os.path.join(work, "mt.json")
    json.dump(hists, open(hp, "w"))
    env = dict(os.environ, PYTHONPATH=os.path.join(common.REPO, "packages", "python"))
    subprocess.run([common.PY, "-c", check_c20.MACHINE, hp, tp], env=env, check=True)
    runs = json.load(open(tp))

    def judge(rs):
        p2 = os.path.join(work, "mt2.json")
        json.dump(rs, open(p2, "w"))
        n = sum(len(r["events"]) for r in rs)
        rc, out = common.run_tlc("PositionMachine", "CONSTANTS MaxLen = 0 NRuns = %d NEvents = %d\nINIT TInit\nNEXT TStep\nPOSTCONDITION AllConsumed\nCHECK_DEADLOCK FALSE\n" % (len(rs), n), env={"POSM_TRACE": p2})
        assert '"@DONE' in out, out[-1500:]
        return list(common.tagged_lines(out, "@F"))
    expect("PositionMachine", judge(runs), None)
    r2 = copy.deepcopy(runs)
    r2[0]["events"][2]["gt"] = "F"                                           # the comparison after the assignment reports the old order
    expect("PositionMachine comparison", judge(r2), "P_order")
    r3 = copy.deepcopy(runs)
    r3[0]["events"][1]["v"] = 0                                              # the recorded assignment is not the one that was made
    expect("PositionMachine assignment", judge(r3), "P_order")


def modelload(work):
    schema, zoo = check_c18._schema(), check_c18.zoo_doc()
    (ctx, d2), = check_c18.grammar_edits(schema, zoo, "OrType", "items", "drop_last", cap=1)
    zp, bp, zenc = os.path.join(work, "zoo.json"), os.path.join(work, "zb.json"), os.path.join(work, "zoo-enc.json")
    json.dump(zoo, open(zp, "w"))
    json.dump(d2, open(bp, "w"))
    json.dump(encode(zoo), open(zenc, "w"))
    r = check_c18.run_eqg(zp, [bp], work, "st")[0]
    ev = {"e": "EqG", "def": "OrType", "key": "items", "op": "drop_last", "ctx": ctx, "b": encode(d2), "ab": r["ab"], "ba": r["ba"], "ne": r["ne"], "detail": ""}
    lg = {"e": "LoadG", "def": "OrType", "key": "items", "op": "drop_last", "ctx": ctx, "b": encode(d2), "readback": encode(r["rb"]), "ok": True, "detail": "ok"}

    def judge(evs):
        tp = os.path.join(work, "ml.json")
        json.dump(evs, open(tp, "w"))
        rc, out = common.run_tlc("ModelLoad", "CONSTANTS NEvents = %d NInter = 0\nINIT TInit\nNEXT Step\nPOSTCONDITION AllConsumed\nCHECK_DEADLOCK FALSE\n" % len(evs), env={"MODEL_TRACE": tp, "MODEL_ZOO": zenc})
        assert '"@DONE' in out, out[-1500:]
        return list(common.tagged_lines(out, "@F"))
    expect("ModelLoad", judge([lg, ev]), None)
    e2 = dict(ev, ba="T")                                                    # one direction of the comparison reported equal
    expect("ModelLoad equality", judge([lg, e2]), "E_diff")
    l2 = dict(lg, readback=encode(zoo))                                      # the read-back is the unedited document
    expect("ModelLoad read-back", judge([l2, ev]), "L_lossless")


def history(work):
    bat = [{"cls": "Position", "j": {"line": 1, "character": 2}}, {"cls": "Position", "j": {"line": -1, "character": 2}}]
    bp = os.path.join(work, "b.json")
    json.dump(bat, open(bp, "w"))
    runs = [check_c19.child(("hist", h, bp, work, i)) for i, h in enumerate((["fresh"], ["fresh", "user_nodetail"]))]

    def judge(rs):
        tp = os.path.join(work, "h.json")
        json.dump([{"events": r["events"]} for r in rs], open(tp, "w"))
        nev = sum(len(r["events"]) for r in rs)
        rc, out = common.run_tlc("ConverterHistory", "CONSTANTS MaxLen = 0 NRuns = %d NEvents = %d\nINIT TInit\nNEXT TStep\nPOSTCONDITION AllConsumed\nCHECK_DEADLOCK FALSE\n" % (len(rs), nev), env={"CONV_TRACE": tp})
        assert '"@DONE' in out, out[-1500:]
        return list(common.tagged_lines(out, "@F"))
    expect("ConverterHistory", judge(runs), None)
    r2 = copy.deepcopy(runs)
    ev = [e for e in r2[1]["events"] if e["e"] == "Probe" and e["cc"] == "d"][-2]
    ev["res"] = "ok:000000000000"                                            # one probe result changed
    expect("ConverterHistory probe", judge(r2), "H_agree")
    r3 = copy.deepcopy(runs)
    next(e for e in r3[0]["events"] if e["e"] == "Create")["ok"] = False
    expect("ConverterHistory create", judge(r3), "H_create")


def pipeline(work):
    small = check_gen.closed_submodel(json.load(open(os.path.join(common.REPO, "generator", "lsp.json"))))
    mp = os.path.join(work, "small.json")
    json.dump(small, open(mp, "w"))
    hist = [{"a": "Run", "model": "A", "seed": "0", "valid": True}, {"a": "Stale"}, {"a": "Run", "model": "A", "seed": "1", "valid": True}]
    ev = check_gen.run_history(("python", hist, {"A": mp}, work, 0, 0))

    def judge(events):
        tp = os.path.join(work, "g.json")
        json.dump([events], open(tp, "w"))
        rc, out = common.run_tlc("GenPipeline", "CONSTANTS MaxLen = 0 NoCleanup = FALSE LastOnly = FALSE NEvents = %d\nINIT TInit\nNEXT TStep\nPOSTCONDITION AllConsumed\nCHECK_DEADLOCK FALSE\n" % len(events), env={"GEN_TRACE": tp})
        assert '"@DONE' in out, out[-1500:]
        return list(common.tagged_lines(out, "@F"))
    expect("GenPipeline", judge(ev), None)
    e2 = copy.deepcopy(ev)
    e2[2]["digest"] = "0" * 64                                               # the second snapshot differs
    expect("GenPipeline snapshot", judge(e2), "R_function")
    e3 = copy.deepcopy(ev)
    e3[2]["stale_left"] = ["types.py"]
    expect("GenPipeline stale file", judge(e3), "R_stale")


def images(work):
    model = os.path.join(common.REPO, "generator", "lsp.json")
    ip, parses, err, img = check_srcimage.rust_image(os.path.join(common.REPO, "packages", "rust", "lsprotocol", "src", "lib.rs"), work, "c")
    expect("RustImage", check_srcimage.judge("RustImage", "RUST_IMAGE", ip, model)[0], None)
    im = copy.deepcopy(img)
    im["structs"]["Position"]["fields"].pop()                                # a field removed from the extracted image
    json.dump(im, open(ip, "w"))
    expect("RustImage field", check_srcimage.judge("RustImage", "RUST_IMAGE", ip, model)[0], "R_field_missing")
    im = copy.deepcopy(img)
    im["structs"]["Hover"]["fields"][0]["ty"] = {"c": "String", "a": []}
    json.dump(im, open(ip, "w"))
    expect("RustImage type term", check_srcimage.judge("RustImage", "RUST_IMAGE", ip, model)[0], "R_field_type")
    doc = emit_order.events(os.path.join(common.REPO, "packages", "python", "lsprotocol", "types.py"))
    i = next(k for k, e in enumerate(doc["events"]) if e["name"] == "Range")
    doc["events"].append(doc["events"].pop(i))                                # one definition moved to the end of the log
    tp = os.path.join(work, "e.json")
    json.dump(doc, open(tp, "w"))
    rc, out = common.run_tlc("EmitOrder", "CONSTANTS NEvents = %d\nINIT TInit\nNEXT Step\nPOSTCONDITION AllConsumed\nCHECK_DEADLOCK FALSE\n" % len(doc["events"]), env={"LSP_MODEL": model, "EMIT_TRACE": tp})
    expect("EmitOrder", list(common.tagged_lines(out, "@F")), "O_use_before_definition")


def vectors(work):
    model = os.path.join(common.REPO, "generator", "lsp.json")
    recs = [{"name": "x", "kind": "notification", "method": "exit", "label": True, "ok": True, "j": check_c17.enc({"jsonrpc": "2.0", "method": "exit"})},
            {"name": "y", "kind": "request", "method": "shutdown", "label": False, "ok": True, "j": check_c17.enc({"jsonrpc": "2.0", "method": "shutdown"})}]

    def judge(rs):
        tp = os.path.join(work, "v.json")
        json.dump(rs, open(tp, "w"))
        rc, out = common.run_tlc("Vectors", "CONSTANTS NEvents = %d\nINIT TInit\nNEXT TStep\nPOSTCONDITION AllConsumed\nCHECK_DEADLOCK FALSE\n" % len(rs), env={"LSP_MODEL": model, "VEC_TRACE": tp})
        assert '"@DONE' in out, out[-1500:]
        return list(common.tagged_lines(out, "@F"))
    expect("Vectors", judge(recs), None)
    r2 = copy.deepcopy(recs)
    r2[1]["label"] = True                                                    # a request without id labelled True
    expect("Vectors label", judge(r2), "V_label_true_but_invalid")
    r3 = copy.deepcopy(recs)
    r3[0]["label"] = False
    expect("Vectors label", judge(r3), "V_label_false_but_valid")


def main():
    work = common.scratch("selftest-")
    try:
        for fn in (codec, history, pipeline, images, vectors, machine, modelload):
            try:
                fn(work)
            except Exception as e:  # noqa: BLE001
                BAD.append("%s: machinery error %r" % (fn.__name__, e))
    finally:
        shutil.rmtree(work, ignore_errors=True)
    for l in OK:
        print("ok   ", l)
    for l in BAD:
        print("FAIL ", l)
    print("selftest: %d ok, %d failed" % (len(OK), len(BAD)))
    return 1 if BAD else 0


if __name__ == "__main__":
    sys.exit(main())
