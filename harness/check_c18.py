"""C18: model loading lossless, merge = concatenation, equality total, schema gate.

Cases are enumerated by TLC (ModelLoad.tla generation mode); every case is executed through
the real CLI (probe plugin) or the real model classes, and the recorded events are judged by
ModelLoad.tla (trace mode)."""
import concurrent.futures as cf
import copy
import hashlib
import json
import os
import shutil
import subprocess

from . import common
from .pyside import encode

LISTS = ["requests", "notifications", "structures", "enumerations", "typeAliases"]


def walk_types(t, fn):
    fn(t)
    k = t.get("kind")
    if k in ("or", "and", "tuple"):
        for x in t["items"]:
            walk_types(x, fn)
    elif k == "array":
        walk_types(t["element"], fn)
    elif k == "map":
        walk_types(t["value"], fn)
    elif k == "literal":
        for p in t["value"]["properties"]:
            walk_types(p["type"], fn)


def has_kind(t, kind):
    found = []
    walk_types(t, lambda x: found.append(1) if x.get("kind") == kind else None)
    return bool(found)


def trimmed(doc):
    """A small document with every feature the edits need (loading does not resolve references)."""
    out = {"metaData": copy.deepcopy(doc["metaData"])}
    st = doc["structures"]
    pick = []

    def first(pred):
        for s in st:
            if pred(s) and s not in pick:
                pick.append(s)
                return
    first(lambda s: s.get("extends"))
    first(lambda s: s.get("mixins"))
    for kind in ("or", "array", "map", "tuple", "literal", "stringLiteral"):
        first(lambda s, kind=kind: any(has_kind(p["type"], kind) for p in s["properties"]))
    first(lambda s: any(p.get("optional") for p in s["properties"]))
    first(lambda s: s.get("proposed"))
    pick.extend([s for s in st[:6] if s not in pick])
    out["structures"] = copy.deepcopy(pick)
    rq = doc["requests"]
    rpick = []
    for pred in (lambda r: "partialResult" in r, lambda r: "errorData" in r, lambda r: "registrationOptions" in r,
                 lambda r: "registrationMethod" in r, lambda r: "params" not in r):
        for r in rq:
            if pred(r) and r not in rpick:
                rpick.append(r)
                break
    rpick.extend([r for r in rq[:3] if r not in rpick])
    out["requests"] = copy.deepcopy(rpick)
    out["notifications"] = copy.deepcopy(doc["notifications"][:4])
    enums = doc["enumerations"][:6]
    enums += [e for e in doc["enumerations"] if e["type"]["name"] == "uinteger" and e not in enums][:1]
    enums += [e for e in doc["enumerations"] if e["type"]["name"] == "integer" and e not in enums][:1]
    out["enumerations"] = copy.deepcopy(enums)
    out["typeAliases"] = copy.deepcopy(doc["typeAliases"][:6])
    return out


def find_prop(doc, kind):
    for s in doc["structures"]:
        for p in s["properties"]:
            if has_kind(p["type"], kind) and p["type"]["kind"] == kind:
                return s, p
    for s in doc["structures"]:
        for p in s["properties"]:
            if has_kind(p["type"], kind):
                t = p["type"]
                found = []
                walk_types(t, lambda x: found.append(x) if x.get("kind") == kind else None)
                return s, {"type": found[0], "_inner": True}
    raise common.MachineryError("trimmed model has no %s type" % kind)


def apply_edit(doc, kind):
    """Apply one edit of ModelLoad.tla's alphabet to a copy of doc; None when not applicable."""
    d = copy.deepcopy(doc)
    s0 = d["structures"][0]
    if kind == "rename_structure":
        s0["name"] += "Renamed"
    elif kind == "rename_property":
        next(s for s in d["structures"] if s["properties"])["properties"][0]["name"] += "Renamed"
    elif kind == "property_type":
        next(s for s in d["structures"] if s["properties"])["properties"][0]["type"] = {"kind": "base", "name": "decimal"}
    elif kind == "flip_optional":
        p = next(s for s in d["structures"] if s["properties"])["properties"][0]
        p["optional"] = not p.get("optional", False)
    elif kind == "enum_value":
        e = d["enumerations"][0]
        e["values"][0]["value"] = (e["values"][0]["value"] + "x") if isinstance(e["values"][0]["value"], str) else e["values"][0]["value"] + 1000
    elif kind == "enum_item_name":
        d["enumerations"][0]["values"][0]["name"] += "Renamed"
    elif kind == "rename_enum":
        d["enumerations"][0]["name"] += "Renamed"
    elif kind == "enum_base":
        e = next(e for e in d["enumerations"] if e["type"]["name"] == "uinteger")
        e["type"]["name"] = "integer"
    elif kind == "add_enum_value":
        e = d["enumerations"][0]
        e["values"].append({"name": "VerifExtra", "value": "verifExtra" if e["type"]["name"] == "string" else 4242})
    elif kind == "or_items_order":
        _, p = find_prop(d, "or")
        p["type"]["items"].reverse()
        if len(p["type"]["items"]) < 2 or p["type"]["items"][0] == p["type"]["items"][-1]:
            p["type"]["items"].append({"kind": "base", "name": "decimal"})
    elif kind == "array_element":
        _, p = find_prop(d, "array")
        p["type"]["element"] = {"kind": "base", "name": "decimal"}
    elif kind == "map_value":
        _, p = find_prop(d, "map")
        p["type"]["value"] = {"kind": "base", "name": "decimal"}
    elif kind == "tuple_item":
        _, p = find_prop(d, "tuple")
        p["type"]["items"][0] = {"kind": "base", "name": "decimal"}
    elif kind == "literal_value":
        _, p = find_prop(d, "literal")
        p["type"]["value"]["properties"].append({"name": "verifExtra", "type": {"kind": "base", "name": "string"}})
    elif kind == "add_extends":
        s0.setdefault("extends", []).append({"kind": "reference", "name": "VerifBase"})
    elif kind == "add_mixin":
        s0.setdefault("mixins", []).append({"kind": "reference", "name": "VerifMixin"})
    elif kind == "method":
        d["requests"][0]["method"] += "/renamed"
    elif kind == "direction":
        r = d["requests"][0]
        r["messageDirection"] = "both" if r["messageDirection"] != "both" else "clientToServer"
    elif kind == "params":
        next(r for r in d["requests"] if "params" in r)["params"] = {"kind": "reference", "name": "VerifParams"}
    elif kind == "notification_params":
        next(r for r in d["notifications"] if "params" in r)["params"] = {"kind": "reference", "name": "VerifParams"}
    elif kind == "result":
        d["requests"][0]["result"] = {"kind": "reference", "name": "VerifResult"}
    elif kind == "drop_partial_result":
        del next(r for r in d["requests"] if "partialResult" in r)["partialResult"]
    elif kind == "error_data":
        next(r for r in d["requests"] if "errorData" in r)["errorData"] = {"kind": "reference", "name": "VerifErr"}
    elif kind == "registration_options":
        next(r for r in d["requests"] if "registrationOptions" in r)["registrationOptions"] = {"kind": "reference", "name": "VerifOpts"}
    elif kind == "registration_method":
        next(r for r in d["requests"] if "registrationMethod" in r)["registrationMethod"] += "/x"
    elif kind == "version":
        d["metaData"]["version"] += ".1"
    elif kind == "add_structure":
        d["structures"].append({"name": "VerifAdded", "properties": []})
    elif kind == "remove_structure":
        d["structures"].pop()
    elif kind == "add_property":
        s0["properties"].append({"name": "verifAdded", "type": {"kind": "base", "name": "string"}, "optional": True})
    elif kind == "remove_property":
        next(s for s in d["structures"] if s["properties"])["properties"].pop()
    elif kind == "alias_type":
        d["typeAliases"][0]["type"] = {"kind": "base", "name": "decimal"}
    elif kind == "rename_alias":
        d["typeAliases"][0]["name"] += "Renamed"
    elif kind == "documentation":
        s0["documentation"] = "verif edit"
    elif kind == "since":
        s0["since"] = "9.9.9"
    elif kind == "proposed":
        s0["proposed"] = not s0.get("proposed", False)
    elif kind == "deprecated":
        s0["deprecated"] = "verif edit"
    elif kind == "typeName":
        d["requests"][0]["typeName"] = d["requests"][0].get("typeName", "X") + "Renamed"
    elif kind == "supportsCustomValues":
        d["enumerations"][0]["supportsCustomValues"] = not d["enumerations"][0].get("supportsCustomValues", False)
    elif kind in ("same", "same_full"):
        pass
    else:
        return None
    return d


ZOO_KINDS = {
    "base": {"kind": "base", "name": "string"},
    "reference": {"kind": "reference", "name": "VerifRef"},
    "array": {"kind": "array", "element": {"kind": "base", "name": "integer"}},
    "map": {"kind": "map", "key": {"kind": "base", "name": "string"}, "value": {"kind": "base", "name": "boolean"}},
    "mapref": {"kind": "map", "key": {"kind": "reference", "name": "VerifKey"}, "value": {"kind": "reference", "name": "VerifRef"}},
    "and": {"kind": "and", "items": [{"kind": "reference", "name": "VerifA"}, {"kind": "reference", "name": "VerifB"}]},
    "or": {"kind": "or", "items": [{"kind": "reference", "name": "VerifA"}, {"kind": "base", "name": "null"}]},
    "or3": {"kind": "or", "items": [{"kind": "base", "name": "string"}, {"kind": "base", "name": "integer"}, {"kind": "base", "name": "boolean"}]},
    "tuple": {"kind": "tuple", "items": [{"kind": "base", "name": "uinteger"}, {"kind": "base", "name": "uinteger"}]},
    "literal": {"kind": "literal", "value": {"properties": [{"name": "a", "type": {"kind": "base", "name": "string"}},
                                                             {"name": "b", "type": {"kind": "base", "name": "integer"}, "optional": True}]}},
    "stringLiteral": {"kind": "stringLiteral", "value": "create"},
    "integerLiteral": {"kind": "integerLiteral", "value": 1},
    "booleanLiteral": {"kind": "booleanLiteral", "value": True},
}
ZOO_WRAP = {
    "array": lambda t: {"kind": "array", "element": t},
    "map": lambda t: {"kind": "map", "key": {"kind": "base", "name": "DocumentUri"}, "value": t},
    "or": lambda t: {"kind": "or", "items": [{"kind": "base", "name": "null"}, t]},
    "and": lambda t: {"kind": "and", "items": [t, {"kind": "reference", "name": "VerifC"}]},
    "tuple": lambda t: {"kind": "tuple", "items": [t, t]},
    "literal": lambda t: {"kind": "literal", "value": {"properties": [{"name": "inner", "type": t}]}},
}
ZOO_INNER = ("reference", "or", "and", "tuple", "array", "literal")


def zoo_doc():
    """A small schema-valid document in which every type kind occurs at a property position and inside every
    kind of container, and every optional key of every declaration kind is present once and absent once
    (loading does not resolve references)."""
    cp = copy.deepcopy
    props = [{"name": "p_" + k, "type": cp(t)} for k, t in ZOO_KINDS.items()]
    props += [{"name": "p_%s_in_%s" % (k, w), "type": ZOO_WRAP[w](cp(ZOO_KINDS[k]))} for w in ZOO_WRAP for k in ZOO_INNER]
    props[0]["optional"] = True
    props[1].update({"documentation": "doc \u00fc\u2713 \u65e5\u672c", "since": "3.17.0", "proposed": True, "deprecated": "old"})
    return {
        "metaData": {"version": "9.9.9"},
        "requests": [
            {"method": "verif/full", "typeName": "VerifFullRequest", "messageDirection": "clientToServer", "params": {"kind": "reference", "name": "VerifZoo"},
             "result": cp(ZOO_KINDS["or"]), "partialResult": cp(ZOO_KINDS["array"]), "errorData": cp(ZOO_KINDS["reference"]),
             "registrationOptions": cp(ZOO_KINDS["and"]), "registrationMethod": "verif/registration", "documentation": "doc", "since": "3.0.0"},
            {"method": "verif/bare", "messageDirection": "both", "result": {"kind": "base", "name": "null"}},
        ],
        "notifications": [
            {"method": "verif/notify", "typeName": "VerifNotification", "messageDirection": "serverToClient", "params": {"kind": "reference", "name": "VerifZoo"},
             "registrationOptions": cp(ZOO_KINDS["reference"]), "registrationMethod": "verif/registration"},
            {"method": "verif/bareNotify", "messageDirection": "clientToServer"},
        ],
        "structures": [
            {"name": "VerifZoo", "properties": props, "extends": [{"kind": "reference", "name": "VerifA"}, {"kind": "reference", "name": "VerifB"}],
             "mixins": [{"kind": "reference", "name": "VerifC"}], "documentation": "doc", "since": "3.17.0"},
            {"name": "VerifA", "properties": [{"name": "x", "type": {"kind": "base", "name": "string"}}, {"name": "y", "type": {"kind": "base", "name": "uinteger"}, "optional": True}]},
            {"name": "VerifB", "properties": []},
        ],
        "enumerations": [
            {"name": "VerifS", "type": {"kind": "base", "name": "string"}, "values": [{"name": "A", "value": "a"}, {"name": "B", "value": "b", "documentation": "doc"}], "supportsCustomValues": True},
            {"name": "VerifI", "type": {"kind": "base", "name": "integer"}, "values": [{"name": "One", "value": 1}, {"name": "Minus", "value": -1}]},
            {"name": "VerifU", "type": {"kind": "base", "name": "uinteger"}, "values": [{"name": "One", "value": 1}, {"name": "Two", "value": 2}, {"name": "Three", "value": 3}]},
        ],
        "typeAliases": [
            {"name": "VerifAlias", "type": cp(ZOO_KINDS["or3"]), "documentation": "doc"},
            {"name": "VerifAlias2", "type": cp(ZOO_KINDS["reference"])},
        ],
    }


def _schema():
    return json.load(open(os.path.join(common.REPO, "generator", "lsp.schema.json")))


def _resolve(schema, sub, node):
    """The definition name a JSON node is an instance of, following $ref and anyOf (alternatives told apart by their consts / enums)."""
    if "$ref" in sub:
        name = sub["$ref"].rsplit("/", 1)[1]
        d = schema["definitions"][name]
        if "anyOf" in d:
            for alt in d["anyOf"]:
                r = _resolve(schema, alt, node)
                if r is not None:
                    return r
            return None
        if d.get("type") == "object" and isinstance(node, dict):
            for k, ps in d.get("properties", {}).items():
                if "const" in ps and node.get(k) != ps["const"]:
                    return None
            return name
        return None
    if sub.get("type") == "object" and isinstance(node, dict):       # an inline alternative (MapKeyType's base form)
        for k, ps in sub.get("properties", {}).items():
            if "const" in ps and node.get(k) != ps["const"]:
                return None
            if "enum" in ps and node.get(k) not in ps["enum"]:
                return None
        return "@inline"
    return None


def schema_nodes(schema, doc):
    """Every object node of doc with the schema definition it instantiates: (definition, node, context) where context is the
    chain of (definition.key) steps from the root."""
    out = []

    def visit(node, sub, ctx):
        name = _resolve(schema, sub, node)
        if name is None:
            return
        d = schema["definitions"][name] if name != "@inline" else sub
        if name != "@inline":
            out.append((name, node, ctx))
        for k, ps in d.get("properties", {}).items():
            if k not in node:
                continue
            step = ctx + ("%s.%s" % (name, k),)
            if ps.get("type") == "array" and isinstance(node[k], list) and isinstance(ps.get("items"), dict):
                for x in node[k]:
                    visit(x, ps["items"], step)
            elif isinstance(node[k], dict):
                visit(node[k], ps, step)
            elif isinstance(node[k], list) and "anyOf" in ps:
                for x in node[k]:
                    visit(x, {"$ref": "#/definitions/Type"}, step)
    visit(doc, {"$ref": "#/definitions/MetaModel"}, ())
    return out


def _fresh(ps, schema, old=None):
    """A value for an optional key that is absent / a replacement for a present one."""
    if "$ref" in ps:
        name = ps["$ref"].rsplit("/", 1)[1]
        d = schema["definitions"][name]
        if "enum" in d:
            return next(x for x in d["enum"] if x != old)
        if name in ("Type", "MapKeyType") or "kind" in d.get("properties", {}):
            cand = [{"kind": "base", "name": "integer"}, {"kind": "reference", "name": "VerifFresh"}]
            if name == "EnumerationType":
                cand = [{"kind": "base", "name": n} for n in ("string", "integer", "uinteger")]
            return next(x for x in cand if x != old)
        if name == "MetaData":
            return {"version": "0.0.0"}
        return None
    if "enum" in ps:
        return next(x for x in ps["enum"] if x != old)
    t = ps.get("type")
    if t == "string":
        return "verif" if old != "verif" else "verif2"
    if t == "boolean":
        return not old if isinstance(old, bool) else True
    if t in ("number", "integer") or (isinstance(t, list) and isinstance(old, int)):
        return (old or 0) + 7
    if isinstance(t, list):
        return (old + "x") if isinstance(old, str) else "verif"
    if t == "array":
        it = ps.get("items", {})
        x = _fresh(it, schema)
        return [x] if x is not None else None
    if "anyOf" in ps:
        return {"kind": "reference", "name": "VerifFresh"} if old != {"kind": "reference", "name": "VerifFresh"} else {"kind": "base", "name": "integer"}
    return None


# to_array / to_empty_array: a key whose schema admits a single value OR an array of them (`params: Type | Type[]`)
LIST_OPS = ("append", "prepend", "drop_last", "drop_first", "swap_ends", "clear", "dup_last", "change_last")


def grammar_edits(schema, doc, defname, key, op, cap=4):
    """Apply `op` at key `key` of nodes instantiating `defname`, one edited copy per distinct context (at most `cap`)."""
    ps = schema["definitions"][defname].get("properties", {}).get(key)
    if ps is None:
        return []
    seen, out = set(), []
    nodes = schema_nodes(schema, doc)
    for idx, (name, node, ctx) in enumerate(nodes):
        if name != defname:
            continue
        present = key in node
        if op == "add":
            if present:
                continue
        elif not present:
            continue
        if ctx in seen and op not in ("add",):
            continue
        d2 = copy.deepcopy(doc)
        n2 = schema_nodes(schema, d2)[idx][1]
        v = n2.get(key)
        if op == "add":
            x = _fresh(ps, schema)
            if x is None:
                continue
            n2[key] = x
        elif op == "drop":
            del n2[key]
        elif op == "change":
            if isinstance(v, list):
                continue
            x = _fresh(ps, schema, v)
            if x is None or key == "kind":
                continue
            n2[key] = x
        elif op in ("to_array", "to_empty_array"):
            if isinstance(v, list) or not any(isinstance(alt, dict) and alt.get("type") == "array" for alt in ps.get("anyOf", [])):
                continue
            n2[key] = [v] if op == "to_array" else []
        elif op == "rekind":
            if key != "kind" or v not in ("and", "or", "tuple"):
                continue
            n2[key] = {"and": "or", "or": "tuple", "tuple": "and"}[v]
        elif op in LIST_OPS:
            if not isinstance(v, list):
                continue
            it = ps.get("items", {"$ref": "#/definitions/Type"})
            x = _fresh(it, schema) if isinstance(it, dict) else None
            if x is None and v and isinstance(v[0], dict):          # a list of declarations: a renamed copy of the first one
                x = copy.deepcopy(v[0])
                for nk in ("name", "method"):
                    if nk in x:
                        x[nk] += "Extra"
            if op == "append":
                if x is None:
                    continue
                v.append(x)
            elif op == "prepend":
                if x is None:
                    continue
                v.insert(0, x)
            elif op == "drop_last":
                if not v:
                    continue
                v.pop()
            elif op == "drop_first":
                if not v:
                    continue
                v.pop(0)
            elif op == "swap_ends":
                if len(v) < 2 or v[0] == v[-1]:
                    continue
                v[0], v[-1] = v[-1], v[0]
            elif op == "clear":
                if not v:
                    continue
                del v[:]
            elif op == "dup_last":
                if not v:
                    continue
                v.append(copy.deepcopy(v[-1]))
            elif op == "change_last":
                if not v or not isinstance(v[-1], dict) or "kind" not in v[-1]:
                    continue
                v[-1] = _fresh({"$ref": "#/definitions/Type"}, schema, v[-1])
        else:
            continue
        seen.add(ctx)
        out.append(("/".join(ctx[-2:]) or "root", d2))
        if len(out) >= cap:
            break
    return out


EQG_CODE = r'''
import json, sys
sys.path.insert(0, sys.argv[4])
from generator import model
from harness.probe_plugin import readback
base = json.load(open(sys.argv[1]))
out = []
for path in json.load(open(sys.argv[2])):
    b = json.load(open(path))
    rec = {}
    try:
        rec["rb"] = readback(model.create_lsp_model([json.loads(json.dumps(b))]))
        rec["load"] = "ok"
    except BaseException as e:
        rec["load"] = "raise:" + type(e).__name__
        out.append(rec)
        continue
    for name, fn in (("ab", lambda x, y: x == y), ("ba", lambda x, y: y == x), ("ne", lambda x, y: x != y)):
        try:
            r = fn(model.create_lsp_model([json.loads(json.dumps(base))]), model.create_lsp_model([json.loads(json.dumps(b))]))
            rec[name] = "T" if r is True else "F" if r is False else "nonbool"
        except BaseException as e:
            rec[name] = "raise:" + type(e).__name__
    out.append(rec)
json.dump(out, open(sys.argv[3], "w"))
'''


def run_eqg(base_path, paths, work, tag):
    lst, outp = os.path.join(work, "eqg-%s.json" % tag), os.path.join(work, "eqgout-%s.json" % tag)
    json.dump(paths, open(lst, "w"))
    env = dict(os.environ, PYTHONPATH=common.REPO)
    subprocess.run([common.PY, "-c", EQG_CODE, base_path, lst, outp, common.VERIF], cwd=common.REPO, env=env, stdout=subprocess.PIPE, stderr=subprocess.PIPE, timeout=900)
    if not os.path.exists(outp):
        return [{"load": "raise:NoOutput"} for _ in paths]
    return json.load(open(outp))


def target_node(d, target):
    """The JSON object a schema-violating edit is applied to."""
    if target == "request":
        return d["requests"][0]
    if target == "notification":
        return d["notifications"][0]
    if target == "structure":
        return d["structures"][0]
    if target == "property":
        return next(s for s in d["structures"] if s["properties"])["properties"][0]
    if target == "enumeration":
        return d["enumerations"][0]
    if target == "enumItem":
        return d["enumerations"][0]["values"][0]
    if target == "typeAlias":
        return d["typeAliases"][0]
    if target == "type":
        return next(s for s in d["structures"] if s["properties"])["properties"][0]["type"]
    if target == "metaData":
        return d["metaData"]
    raise KeyError(target)


REQ_KEY = {"request": "method", "notification": "method", "structure": "properties", "property": "type", "enumeration": "values",
           "enumItem": "value", "typeAlias": "type", "type": "kind", "metaData": "version"}
ENUM_KEY = {"request": ("messageDirection", "sideways"), "notification": ("messageDirection", "sideways"),
            "enumeration": None, "type": ("kind", "sideways")}


def bad_edit(doc, kind, target):
    d = copy.deepcopy(doc)
    n = target_node(d, target)
    if kind == "missing_required_key":
        del n[REQ_KEY[target]]
    elif kind == "wrong_json_type":
        key = REQ_KEY[target]
        n[key] = 12345 if not isinstance(n[key], int) else "x"
    elif kind == "undeclared_key":
        n["verifUndeclared"] = 1
    elif kind == "bad_enum_string":
        if target == "enumeration":
            n["type"]["name"] = "sideways"
        elif ENUM_KEY.get(target):
            n[ENUM_KEY[target][0]] = ENUM_KEY[target][1]
        else:
            return None
    return d


def schema_invalid(doc):
    import jsonschema
    schema = json.load(open(os.path.join(common.REPO, "generator", "lsp.schema.json")))
    strict = dict(schema)
    strict["$ref"] = "#/definitions/MetaModel"
    try:
        jsonschema.validate(doc, strict)
        return False
    except jsonschema.ValidationError:
        return True


def tree_digest(root):
    h = hashlib.sha256()
    for d, dirs, files in sorted(os.walk(root)):
        dirs.sort()
        for f in sorted(files):
            p = os.path.join(d, f)
            h.update(os.path.relpath(p, root).encode())
            h.update(open(p, "rb").read())
    return h.hexdigest()


ASCII_LOCALE = {"LC_ALL": "C", "LANG": "C", "PYTHONUTF8": "0", "PYTHONCOERCECLOCALE": "0"}


def run_cli(models, plugin, work, tag, extra_env=None):
    """One real CLI run in scratch dirs; returns exit status, whether the probe ran, whether anything changed."""
    out = os.path.join(work, "out-" + tag)
    test = os.path.join(work, "test-" + tag)
    os.makedirs(out)
    shutil.copytree(os.path.join(common.REPO, "tests", "rust"), test, ignore=shutil.ignore_patterns("target"))
    before = (tree_digest(out), tree_digest(test))
    probe_out = os.path.join(work, "probe-" + tag + ".json")
    env = dict(os.environ, PYTHONPATH=common.REPO + os.pathsep + common.VERIF, PROBE_OUT=probe_out, PYTHONHASHSEED="0")
    env.update(extra_env or {})
    mod = "harness.probe_plugin" if plugin == "probe" else plugin
    p = subprocess.run([common.PY, "-m", "generator", "--model"] + models + ["--plugin", mod, "--output-dir", out, "--test-dir", test],
                       cwd=common.REPO, env=env, stdout=subprocess.PIPE, stderr=subprocess.STDOUT, timeout=600)
    changed = (tree_digest(out), tree_digest(test)) != before
    rb = json.load(open(probe_out)) if os.path.exists(probe_out) else None
    shutil.rmtree(out, ignore_errors=True)
    shutil.rmtree(test, ignore_errors=True)
    return p.returncode, rb, changed


EQ_CODE = r'''
import json, sys
from generator import model
a, b = json.load(open(sys.argv[1])), json.load(open(sys.argv[2]))
try:
    r = model.create_lsp_model([a]) == model.create_lsp_model([b])
    print("T" if r is True else "F" if r is False else "nonbool")
except BaseException as e:
    print("raise:" + type(e).__name__)
'''


SESSION_CODE = r'''
import json, sys
sys.path.insert(0, sys.argv[3])
from generator import model
from harness.probe_plugin import readback
docs = [json.load(open(p)) for p in json.load(open(sys.argv[1]))]
out = {}
try:
    m1 = model.create_lsp_model(docs)
    out["rb1"] = readback(m1)
    m2 = model.create_lsp_model(docs)          # the caller's documents are reused as they are
    out["rb2"] = readback(m2)
    r = m1 == m2
    out["eq"] = "T" if r is True else "F" if r is False else "nonbool"
    out["rb3"] = readback(model.create_lsp_model([docs[0]]))
    out["ok"] = True
except BaseException as e:
    out["ok"] = False
    out["exc"] = type(e).__name__
json.dump(out, open(sys.argv[2], "w"))
'''


INTER_CODE = r'''
import json, sys, threading
sys.path.insert(0, sys.argv[4])
from generator import model
from harness.probe_plugin import readback
doc = json.load(open(sys.argv[1]))
at = int(sys.argv[2])
paused, resume = threading.Event(), threading.Event()
out = {}
count = [0]

def tracer(frame, event, arg):
    if not frame.f_code.co_filename.endswith("model.py"):
        return None
    def local(frame, event, arg):
        if event == "line":
            count[0] += 1
            if count[0] == at:
                paused.set()
                resume.wait(20)
        return local
    return local

def first():
    sys.settrace(tracer)
    try:
        out["a"] = {"ok": True, "rb": readback(model.create_lsp_model([json.loads(json.dumps(doc))]))}
    except BaseException as e:
        out["a"] = {"ok": False, "exc": type(e).__name__}
    finally:
        sys.settrace(None)
        paused.set()

t = threading.Thread(target=first, daemon=True)
t.start()
paused.wait(20)
try:
    out["b"] = {"ok": True, "rb": readback(model.create_lsp_model([json.loads(json.dumps(doc))]))}
except BaseException as e:
    out["b"] = {"ok": False, "exc": type(e).__name__}
resume.set()
t.join(30)
out["lines_seen"] = count[0]
json.dump(out, open(sys.argv[3], "w"))
'''


def run_interleaved(zoo_path, at, work, tag):
    outp = os.path.join(work, "inter-%s.json" % tag)
    env = dict(os.environ, PYTHONPATH=common.REPO)
    subprocess.run([common.PY, "-c", INTER_CODE, zoo_path, str(at), outp, common.VERIF], cwd=common.REPO, env=env, stdout=subprocess.PIPE, stderr=subprocess.PIPE, timeout=120)
    return json.load(open(outp)) if os.path.exists(outp) else {"a": {"ok": False, "exc": "NoOutput"}, "b": {"ok": False, "exc": "NoOutput"}}


def run_session(files, work, tag):
    lst, outp = os.path.join(work, "sess-%s.json" % tag), os.path.join(work, "sessout-%s.json" % tag)
    json.dump(files, open(lst, "w"))
    env = dict(os.environ, PYTHONPATH=common.REPO)
    subprocess.run([common.PY, "-c", SESSION_CODE, lst, outp, common.VERIF], cwd=common.REPO, env=env, stdout=subprocess.PIPE, stderr=subprocess.PIPE, timeout=300)
    return json.load(open(outp)) if os.path.exists(outp) else {"ok": False, "exc": "NoOutput"}


def run_eq(a, b, work, tag):
    pa, pb = os.path.join(work, "eqa-%s.json" % tag), os.path.join(work, "eqb-%s.json" % tag)
    json.dump(a, open(pa, "w"))
    json.dump(b, open(pb, "w"))
    env = dict(os.environ, PYTHONPATH=common.REPO)
    p = subprocess.run([common.PY, "-c", EQ_CODE, pa, pb], cwd=common.REPO, env=env, stdout=subprocess.PIPE, stderr=subprocess.PIPE, timeout=300)
    lines = p.stdout.decode().strip().splitlines()
    return lines[-1] if lines else "raise:NoOutput"


def check(tier):
    rep = common.Reporter("C18", tier, "model_checking")
    rc, out = common.run_tlc("ModelLoad", "CONSTANTS NEvents = 0 NInter = %d\nINIT Init\nNEXT Next\nINVARIANT EmitCase\nCHECK_DEADLOCK FALSE\n" % (120 if tier == "quick" else 600))
    if "No error has been found" not in out:
        raise common.MachineryError("ModelLoad.tla generation failed:\n" + out[-2000:])
    gen, distinct = common.tlc_stats(out)
    cases = list(common.tagged_lines(out, "@K"))
    full = json.load(open(os.path.join(common.REPO, "generator", "lsp.json")))
    trim = trimmed(full)
    work = common.scratch("c18-")
    events, descr = [], []
    schema, zoo = _schema(), zoo_doc()
    if schema_invalid(zoo):
        raise common.MachineryError("the zoo document is not schema-valid")
    try:
        def wfile(doc, name):
            p = os.path.join(work, name)
            json.dump(doc, open(p, "w", encoding="utf-8"), ensure_ascii=False)     # raw UTF-8 text, as in the committed model
            return p

        def do_case(ic):
            i, c = ic
            tag = str(i)
            if c["c"] in ("load", "session"):
                if c["files"] == "full":
                    docs = [full]
                elif c["files"] == "trimmed":
                    docs = [trim]
                elif c["files"] in ("zoo", "zoo_ascii_locale"):
                    docs = [zoo]
                elif c["files"] == "empty_first":
                    # a first document whose declaration lists are all empty, extended by a second one (the first must stay empty)
                    docs = [{"metaData": {"version": "0.0.0"}, "requests": [], "notifications": [], "structures": [], "enumerations": [], "typeAliases": []}, zoo]
                elif c["files"] == "zoo_twice":
                    # every key a merge could identify declarations by (name, typeName, method, absent typeName) collides
                    docs = [zoo, zoo]
                elif c["files"] in ("two", "three"):
                    n = 2 if c["files"] == "two" else 3
                    docs = []
                    for k in range(n):
                        part = {"metaData": trim["metaData"]}
                        for l in LISTS:
                            lst = trim[l]
                            part[l] = lst[k * len(lst) // n:(k + 1) * len(lst) // n]
                        docs.append(part)
                else:
                    ext = {"metaData": {"version": "0.0.1-ext"}, "requests": [], "notifications": [],
                           "structures": [{"name": "VerifExt", "properties": [{"name": "x", "type": {"kind": "base", "name": "string"}}]}],
                           "enumerations": [{"name": "VerifEnum", "type": {"kind": "base", "name": "string"}, "values": [{"name": "A", "value": "a"}]}],
                           "typeAliases": []}
                    docs = [trim, ext]
                if c["files"] in ("zoo_twice", "three"):
                    # model files of the SAME NAME in different directories (vendor/lsp.json team/lsp.json): what a file is
                    # called says nothing about what it declares
                    files = []
                    for k, d in enumerate(docs):
                        os.makedirs(os.path.join(work, "dir-%s-%d" % (tag, k)), exist_ok=True)
                        files.append(wfile(d, os.path.join("dir-%s-%d" % (tag, k), "lsp.json")))
                else:
                    files = [wfile(d, "m-%s-%d.json" % (tag, k)) for k, d in enumerate(docs)]
                if c["c"] == "session":
                    r = run_session(files, work, tag)
                    enc_docs = [encode(d) for d in docs]
                    if not r.get("ok"):
                        return [{"e": "Load", "docs": enc_docs, "readback": {"k": "null"}, "ok": False}], c
                    merged = encode(r["rb1"])
                    return [{"e": "Load", "docs": enc_docs, "readback": encode(r["rb1"]), "ok": True},
                            {"e": "Load", "docs": enc_docs, "readback": encode(r["rb2"]), "ok": True},
                            {"e": "Eq", "kind": "same", "a": merged, "b": merged, "res": r["eq"] if r["eq"] in ("T", "F") else "raise", "detail": r["eq"]},
                            {"e": "Load", "docs": enc_docs[:1], "readback": encode(r["rb3"]), "ok": True}], c
                # "zoo_ascii_locale": the same CLI run in a process whose locale encoding is ASCII (a JSON file is UTF-8
                # whatever the locale says; the zoo carries non-ASCII documentation)
                rcode, rb, _ = run_cli(files, "probe", work, tag, ASCII_LOCALE if c["files"] == "zoo_ascii_locale" else None)
                ok = rcode == 0 and rb is not None
                return [{"e": "Load", "docs": [encode(d) for d in docs], "readback": encode(rb["model"]) if ok else {"k": "null"}, "ok": ok}], c
            if c["c"] == "eq":
                base = full if c["kind"] == "same_full" else trim
                b = apply_edit(base, c["kind"])
                if b is None:
                    return [], c
                res = run_eq(base, b, work, tag)
                return [{"e": "Eq", "kind": c["kind"], "a": encode(base), "b": encode(b), "res": res if res in ("T", "F") else "raise", "detail": res}], c
            if c["c"] == "interleaved":
                r = run_interleaved(zoo_path, c["at"], work, tag)
                enc_docs = [encode(zoo)]
                return [{"e": "Load", "docs": enc_docs, "readback": encode(r[w]["rb"]) if r[w]["ok"] else {"k": "null"}, "ok": r[w]["ok"]} for w in ("b", "a") if w in r], c
            if c["c"] == "eqg":
                edits = [(ctx, d2) for ctx, d2 in grammar_edits(schema, zoo, c["def"], c["key"], c["op"], cap=4 if tier == "quick" else 12) if not schema_invalid(d2)]
                if not edits:
                    return [], c
                paths = [wfile(d2, "g-%s-%d.json" % (tag, k)) for k, (_, d2) in enumerate(edits)]
                res = run_eqg(zoo_path, paths, work, tag)
                short = lambda r: r if r in ("T", "F") else "raise"
                evs = []
                for (ctx, d2), r in zip(edits, res):
                    head = {"def": c["def"], "key": c["key"], "op": c["op"], "ctx": ctx}
                    if r["load"] != "ok":
                        evs.append(dict(head, e="LoadG", b=encode(d2), readback={"k": "null"}, ok=False, detail=r["load"]))
                        continue
                    evs.append(dict(head, e="LoadG", b=encode(d2), readback=encode(r["rb"]), ok=True, detail="ok"))
                    evs.append(dict(head, e="EqG", b=encode(d2), ab=short(r["ab"]), ba=short(r["ba"]), ne=short(r["ne"]), detail="%s/%s/%s" % (r["ab"], r["ba"], r["ne"])))
                return evs, c
            if c["c"] == "gate":
                if tier == "quick" and c["plugin"] == "testdata" and c["kind"] != "missing_required_key":
                    return [], c       # testdata runs 20+ s when the gate lets a model through; thorough runs all
                if c["position"] != "only" and (c["plugin"] not in ("probe", "python") or c["target"] not in ("property", "typeAlias", "request")):
                    return [], c       # multi-file positions: a covering subset
                bad = bad_edit(trim if c["plugin"] != "testdata" else trim, c["kind"], c["target"])
                if bad is None:
                    return [], c
                inv = schema_invalid(bad)
                f = wfile(bad, "bad-%s.json" % tag)
                files = [f]
                if c["position"] != "only":
                    ext = {"metaData": {"version": "0.0.1-ext"}, "requests": [], "notifications": [], "enumerations": [], "typeAliases": [],
                           "structures": [{"name": "VerifExt", "properties": [{"name": "x", "type": {"kind": "base", "name": "string"}}]}]}
                    g = wfile(ext, "good-%s.json" % tag)
                    files = [f, g] if c["position"] == "first" else [g, f]
                rcode, rb, changed = run_cli(files, c["plugin"], work, tag)
                return [{"e": "Gate", "kind": c["kind"] + ("" if c["position"] == "only" else "@" + c["position"]), "target": c["target"], "plugin": c["plugin"], "schema_invalid": inv,
                         "exit": rcode if rcode >= 0 else 255, "invoked": rb is not None, "changed": changed}], c
            return [], c

        zoo_path = wfile(zoo, "zoo.json")
        zoo_enc = wfile(encode(zoo), "zoo-enc.json")
        with cf.ThreadPoolExecutor(max_workers=common.NCPU) as ex:
            for evs, c in ex.map(do_case, list(enumerate(cases))):
                for ev in evs:
                    events.append(ev)
                    descr.append(c)
        tp = os.path.join(work, "trace.json")
        json.dump(events, open(tp, "w"))
        rc, out2 = common.run_tlc("ModelLoad", "CONSTANTS NEvents = %d NInter = 0\nINIT TInit\nNEXT Step\nPOSTCONDITION AllConsumed\nCHECK_DEADLOCK FALSE\n" % len(events),
                                  env={"MODEL_TRACE": tp, "MODEL_ZOO": zoo_enc}, heap="6g")
        if '"@DONE' not in out2:
            raise common.MachineryError("ModelLoad.tla did not consume the trace:\n" + out2[-2500:])
        for f in common.tagged_lines(out2, "@F"):
            ev = events[f["l"] - 1]
            c = descr[f["l"] - 1]
            for clause in f["c"]:
                if ev["e"] == "Gate":
                    sig = {"clause": clause, "kind": ev["kind"], "target": ev["target"], "plugin": ev["plugin"]}
                    small = ev
                elif ev["e"] in ("EqG", "LoadG"):
                    sig = {"clause": clause, "def": ev["def"], "key": ev["key"], "op": ev["op"]}
                    small = {k: v for k, v in ev.items() if k not in ("b", "readback")}
                elif ev["e"] == "Eq":
                    sig = {"clause": clause, "kind": ev["kind"], "detail": ev["detail"]}
                    small = {"e": "Eq", "kind": ev["kind"], "res": ev["detail"]}
                else:
                    sig = {"clause": clause, "files": c.get("files", ""), "case": c["c"]}
                    small = {"e": "Load", "case": c["c"], "files": c.get("files", ""), "at": c.get("at", 0), "ok": ev["ok"]}
                rep.violation(sig, small)
    finally:
        shutil.rmtree(work, ignore_errors=True)
    kinds = {}
    for ev in events:
        kinds[ev["e"]] = kinds.get(ev["e"], 0) + 1
    rep.coverage.update({"states": distinct, "transitions": gen, "traces_validated_against_impl": len(events), "events_by_kind": kinds,
                         "gate_cases_schema_invalid": sum(1 for e in events if e["e"] == "Gate" and e["schema_invalid"]),
                         "exhaustive": tier == "thorough",
                         "rule": "cases = states of ModelLoad.tla (every structural / annotation edit kind for equality, bad-edit kind x target x plugin for the gate, five load shapes); each executed through the real CLI with a probe plugin or the real model classes; events judged by ModelLoad.tla",
                         "samples": [{k: v for k, v in e.items() if k not in ("a", "b", "docs", "readback")} for e in events[:3] + events[-2:]]})
    rep.assumptions = ["the probe plugin reads the LSPModel back faithfully (attrs.fields, None omitted, id_ dropped)",
                       "schema validity of a bad edit is decided by the jsonschema library against #/definitions/MetaModel of the repository's schema",
                       "edits are applied by harness/check_c18.py; TLC checks that the edited document really differs"]
    return rep
