"""pytest plugin (no source hook): records every top-level converter.structure / unstructure call
made by the repository's own test-suite, so that the calls the existing tests already make are
judged by CodecTrace.tla with every clause, not only by the tests' own assertions.

    PYTHONPATH=/verif VERIF_TRACE_OUT=<file> pytest -p harness.pytest_recorder tests/python
"""
import json
import os
import threading

import cattrs

from harness.pyside import encode, project

_events = []
_depth = threading.local()
_orig_structure = cattrs.Converter.structure
_orig_unstructure = cattrs.Converter.unstructure
_test = {"id": ""}


def _jsonable(v):
    try:
        json.dumps(v)
        return True
    except Exception:
        return False


def _structure(self, obj, cl):
    d = getattr(_depth, "n", 0)
    _depth.n = d + 1
    try:
        res = _orig_structure(self, obj, cl)
    except BaseException as e:
        if d == 0 and isinstance(cl, type) and _jsonable(obj):
            _events.append({"e": "Structure", "test": _test["id"], "cls": cl.__name__, "j": encode(obj), "ok": False, "exc": type(e).__name__,
                            "p": {"k": "none"}, "oid": 0})
        raise
    finally:
        _depth.n = d
    if d == 0 and isinstance(cl, type) and _jsonable(obj):
        _events.append({"e": "Structure", "test": _test["id"], "cls": cl.__name__, "j": encode(obj), "ok": True, "exc": "", "p": project(res), "oid": id(res)})
    return res


def _unstructure(self, obj, unstructure_as=None):
    d = getattr(_depth, "n", 0)
    _depth.n = d + 1
    try:
        res = _orig_unstructure(self, obj, unstructure_as)
    finally:
        _depth.n = d
    if d == 0:
        try:
            w = json.loads(json.dumps(res))
            _events.append({"e": "Unstructure", "test": _test["id"], "cls": type(obj).__name__, "w": encode(w), "ok": True, "oid": id(obj)})
        except Exception:
            pass
    return res


def pytest_configure(config):
    cattrs.Converter.structure = _structure
    cattrs.Converter.unstructure = _unstructure


def pytest_runtest_setup(item):
    _test["id"] = item.nodeid


def _roots():
    """class name -> specification root, for the classes of the package under test"""
    from lsprotocol import types
    import attrs
    m = {}
    for name, obj in vars(types).items():
        if isinstance(obj, type) and attrs.has(obj) and obj.__module__ == types.__name__:
            m[name] = {"kind": "structure", "name": name}
    for method, tup in types.METHOD_TO_TYPES.items():
        kind = "request" if tup[1] is not None else "notification"
        m[tup[0].__name__] = {"kind": kind, "name": method}
        if tup[1] is not None:
            m[tup[1].__name__] = {"kind": "response", "name": method}
    return m


def pytest_sessionfinish(session, exitstatus):
    out = os.environ.get("VERIF_TRACE_OUT")
    roots = _roots()
    for e in _events:
        e["root"] = roots.get(e["cls"], {"kind": "unknown", "name": e["cls"]})
    if out:
        with open(out, "w", encoding="utf-8") as f:
            json.dump(_events, f, ensure_ascii=False)
