"""types.py as the log of the Python generator's emission table -> Def events for EmitOrder.tla."""
import ast
import builtins
import json
import sys


def names_in(node):
    """Names evaluated when the expression is evaluated (string constants are not evaluated)."""
    out = []
    for n in ast.walk(node):
        if isinstance(n, ast.Name):
            out.append(n.id)
    return out


def events(path):
    tree = ast.parse(open(path, encoding="utf-8").read())
    prelude = set(dir(builtins))
    evs = []
    for st in tree.body:
        if isinstance(st, (ast.Import, ast.ImportFrom)):
            for a in st.names:
                prelude.add((a.asname or a.name).split(".")[0])
            continue
        if isinstance(st, ast.ClassDef):
            uses = []
            for d in st.decorator_list:
                uses += names_in(d)
            for b in st.bases:
                uses += names_in(b)
            fields = []
            is_enum = any("enum" in ast.unparse(b) for b in st.bases)
            local = set()
            for b in st.body:
                if isinstance(b, ast.AnnAssign):
                    uses += [n for n in names_in(b.annotation) if n not in local]
                    has_default = False
                    if b.value is not None:
                        uses += [n for n in names_in(b.value) if n not in local]
                        src = ast.unparse(b.value)
                        has_default = not src.startswith("attrs.field(") or "default=" in src
                    fields.append({"name": b.target.id, "default": has_default})
                    local.add(b.target.id)
                elif isinstance(b, ast.Assign):
                    uses += [n for n in names_in(b.value) if n not in local]
                    for t in b.targets:
                        if isinstance(t, ast.Name):
                            local.add(t.id)
                elif isinstance(b, ast.FunctionDef):
                    for d in b.decorator_list:
                        uses += names_in(d)
                    local.add(b.name)
            evs.append({"kind": "enum" if is_enum else "class", "name": st.name, "uses": sorted(set(uses) - {st.name}),
                        "fields": [] if is_enum else fields})
        elif isinstance(st, ast.Assign) and len(st.targets) == 1 and isinstance(st.targets[0], ast.Name):
            name = st.targets[0].id
            kind = "alias" if name[:1].isupper() and not name.isupper() else "assign"
            evs.append({"kind": kind, "name": name, "uses": sorted(set(names_in(st.value))), "fields": []})
        elif isinstance(st, ast.AnnAssign) and isinstance(st.target, ast.Name):
            uses = names_in(st.annotation) + (names_in(st.value) if st.value is not None else [])
            evs.append({"kind": "assign", "name": st.target.id, "uses": sorted(set(uses)), "fields": []})
        elif isinstance(st, ast.FunctionDef):
            uses = []
            for d in st.decorator_list:
                uses += names_in(d)
            for d in st.args.defaults:
                uses += names_in(d)
            evs.append({"kind": "func", "name": st.name, "uses": sorted(set(uses)), "fields": []})
    return {"prelude": sorted(prelude), "events": evs}


if __name__ == "__main__":
    doc = events(sys.argv[1])
    json.dump(doc, open(sys.argv[2], "w"))
    print(len(doc["events"]))
