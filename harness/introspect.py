"""Projects the generated Python module (lsprotocol.types) to an 'image' document that
PyImage.tla compares with the image it computes from the metamodel.

Run in a fresh interpreter with the package on sys.path:
    python -m harness.introspect <out.json> <model.json>
Only observation: attrs.fields, enum members, module attributes, the catalogue dicts.
"""
import enum
import json
import os
import sys
import typing

import attrs

from .pyside import encode, norm


def term(ann, depth=0):
    """Type annotation -> term.  Unions are flattened the way typing does."""
    if depth > 40:
        return {"t": "deep"}
    if ann is None or ann is type(None):
        return {"t": "none"}
    if ann is typing.Any:
        return {"t": "any"}
    if isinstance(ann, str):
        return {"t": "fwd", "n": ann}
    if isinstance(ann, typing.ForwardRef):
        return {"t": "fwd", "n": ann.__forward_arg__}
    if ann is str:
        return {"t": "str"}
    if ann is int:
        return {"t": "int"}
    if ann is float:
        return {"t": "float"}
    if ann is bool:
        return {"t": "bool"}
    if ann is object:
        return {"t": "object"}
    origin = typing.get_origin(ann)
    args = typing.get_args(ann)
    if origin is typing.Union:
        return {"t": "union", "a": [term(a, depth + 1) for a in args]}
    if origin is typing.Literal:
        return {"t": "literal", "v": [str(a) for a in args]}
    if origin is not None:
        name = getattr(origin, "__name__", str(origin))
        if name in ("Sequence", "list", "List"):
            return {"t": "seq", "a": [term(a, depth + 1) for a in args]}
        if name in ("dict", "Dict", "Mapping"):
            return {"t": "dict", "a": [term(a, depth + 1) for a in args]}
        if name in ("tuple", "Tuple"):
            return {"t": "tuple", "a": [term(a, depth + 1) for a in args]}
        return {"t": "generic:" + name, "a": [term(a, depth + 1) for a in args]}
    if isinstance(ann, type):
        return {"t": "cls", "n": ann.__name__}
    return {"t": "other:" + repr(ann)[:60]}


def validator_term(v):
    """attrs validator -> {"v": kind, "arg": text, "opt": wrapped in attrs.validators.optional}."""
    if v is None:
        return {"v": "none", "arg": "", "opt": False}
    cls = type(v).__name__
    if cls == "_OptionalValidator":
        inner = validator_term(v.validator)
        inner["opt"] = True
        return inner
    if cls == "_InstanceOfValidator":
        return {"v": "instance_of", "arg": getattr(v.type, "__name__", str(v.type)), "opt": False}
    if cls == "_InValidator":
        return {"v": "in", "arg": "|".join(str(x) for x in v.options), "opt": False}
    name = getattr(v, "__name__", cls)
    mod = getattr(v, "__module__", "")
    if name in ("integer_validator", "uinteger_validator") and mod.endswith("validators"):
        return {"v": name, "arg": "", "opt": False}
    return {"v": "other:" + name, "arg": "", "opt": False}


def default_term(a):
    if a.default is attrs.NOTHING:
        return "nothing"
    if a.default is None:
        return "none"
    if isinstance(a.default, str):
        return "str:" + a.default
    return "other:" + repr(a.default)[:40]


def image(types, converters):
    converters.get_converter()          # resolves forward references (what every user does first)
    out = {"classes": {}, "enums": {}, "aliases": {}, "methods": {}, "constants": {}, "registry": {}, "unresolved": [],
           "defined": []}
    mod_name = types.__name__
    for name, obj in vars(types).items():
        if name.startswith("__"):
            continue
        if isinstance(obj, type) and issubclass(obj, enum.Enum) and obj.__module__ == mod_name:
            out["defined"].append(name)
            bases = [b.__name__ for b in obj.__mro__ if b in (str, int)]
            out["enums"][name] = {"base": bases[0] if bases else "",
                                  "members": [{"name": n, "value": encode(m.value)} for n, m in obj.__members__.items()]}
        elif isinstance(obj, type) and obj.__module__ == mod_name and obj.__name__ != name:
            out["aliases"][name] = {"t": "cls", "n": obj.__name__}      # a plain alias of a class
        elif isinstance(obj, type) and attrs.has(obj) and obj.__module__ == mod_name:
            out["defined"].append(name)
            fields = []
            for a in attrs.fields(obj):
                if isinstance(a.type, (str, typing.ForwardRef)):
                    out["unresolved"].append("%s.%s" % (name, a.name))
                fields.append({"n": norm(a.name), "name": a.name, "req": a.default is attrs.NOTHING, "default": default_term(a),
                               "ann": term(a.type), "val": validator_term(a.validator),
                               "special": bool(types.is_special_property(obj, a.name))})
            out["classes"][name] = {"attrs": fields, "name_ok": obj.__name__ == name}
        elif isinstance(obj, type) and obj.__module__ == mod_name:
            out["defined"].append(name)
            out["aliases"][name] = {"t": "plainclass", "n": obj.__name__}
        elif name[0].isupper() and not name.isupper() and (typing.get_origin(obj) is not None or obj is object
                                                            or isinstance(obj, typing.ForwardRef)):
            out["aliases"][name] = term(obj)
        elif name[0].isupper() and not name.isupper() and obj in (str, int, float, bool):
            out["aliases"][name] = term(obj)
        elif name.isupper() and isinstance(obj, str):
            out["constants"][name] = obj
    m2t = getattr(types, "METHOD_TO_TYPES", {})
    for method, tup in m2t.items():
        req, resp, params, regopts = (list(tup) + [None] * 4)[:4]
        ent = {"req": getattr(req, "__name__", ""), "resp": getattr(resp, "__name__", "") if resp is not None else "",
               "params": term(params) if params is not None else {"t": "absent"},
               "regopts": term(regopts) if regopts is not None else {"t": "absent"},
               "default_method": "", "direction": "", "consts": sorted(k for k, v in out["constants"].items() if v == method)}
        try:
            ent["default_method"] = str(attrs.fields(req).method.default)
        except Exception:
            pass
        try:
            ent["direction"] = str(types.message_direction(method))
        except Exception as e:  # noqa: BLE001
            ent["direction"] = "error:" + type(e).__name__
        out["methods"][method] = ent
    for name, obj in getattr(types, "ALL_TYPES_MAP", {}).items():
        if name.startswith("__"):
            continue
        out["registry"][name] = obj is getattr(types, name, None)
    return out


def use_package(types, converters):
    """What an application does before anybody looks at the classes again: several converters (one of them its own),
    messages parsed and written, objects built, compared and changed.  Every step is best effort (an evolved metamodel
    may have changed any of the classes used here); only the state of the classes afterwards matters."""
    import cattrs

    def attempt(fn):
        try:
            return fn()
        except Exception:  # noqa: BLE001
            return None
    c1 = converters.get_converter()
    c2 = converters.get_converter(cattrs.Converter(detailed_validation=False))
    msgs = [("InitializeRequest", {"jsonrpc": "2.0", "id": 1, "method": "initialize", "params": {"capabilities": {}, "processId": None, "rootUri": None}}),
            ("HoverResponse", {"jsonrpc": "2.0", "id": 1, "result": {"contents": "x", "range": {"start": {"line": 0, "character": 0}, "end": {"line": 0, "character": 1}}}}),
            ("DefinitionResponse", {"jsonrpc": "2.0", "id": 2, "result": []}),
            ("ExitNotification", {"jsonrpc": "2.0", "method": "exit"}),
            ("FoldingRange", {"startLine": 1, "endLine": 2, "kind": "custom"}),
            ("CreateFile", {"uri": "file:///a", "kind": "create"})]
    for conv in (c1, c2, c1):
        for name, data in msgs:
            cls = getattr(types, name, None)
            if cls is not None:
                attempt(lambda: conv.unstructure(conv.structure(data, cls), cls))
    p = attempt(lambda: types.Position(line=1, character=2))
    if p is not None:
        attempt(lambda: p < types.Position(line=1, character=3))
        attempt(lambda: setattr(p, "line", 5))
    attempt(lambda: types.Position(line=-1, character=0))
    attempt(lambda: types.CreateFile(uri="u", kind="other"))


def main(argv):
    import importlib
    # VERIF_PKG_NAME: the package imported under another qualified name (a vendored copy, bundled_libs.lsprotocol) while a
    # top-level lsprotocol is importable as well
    pkg = os.environ.get("VERIF_PKG_NAME", "lsprotocol")
    converters = importlib.import_module(pkg + ".converters")
    types = importlib.import_module(pkg + ".types")
    from .codec_driver import norm_table
    if os.environ.get("VERIF_IMAGE_STAGE") == "used":
        use_package(types, converters)
    img = image(types, converters)
    img["norm"] = norm_table(argv[2])
    json.dump(img, open(argv[1], "w"))
    print(json.dumps({"classes": len(img["classes"]), "enums": len(img["enums"]), "aliases": len(img["aliases"]), "methods": len(img["methods"])}))


if __name__ == "__main__":
    main(sys.argv)
