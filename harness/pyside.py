"""The refinement mapping between the Python package and the specification's encodings.

This is the trusted part of the harness (DESIGN section 3.1).  It contains no notion of
validity, normal form, range or expected result: it only
  * encodes / decodes JSON to the tagged node encoding of LspValue.tla,
  * projects Python object graphs to projection nodes,
  * builds Python objects from abstract objects through the PUBLIC constructors,
  * resolves a specification root / class reference to the Python class (by name, or through
    METHOD_TO_TYPES for message envelopes).
The lsprotocol package is imported from sys.path (the checks put <repo>/packages/python or a
scratch package for an evolved model there).
"""
import enum
import math

import json
import os
import attrs

LIMIT = 10 ** 9


def norm(name):
    """Name normalisation shared by attribute names and metamodel property names."""
    return name.replace("_", "").lower()


# ----------------------------------------------------------------------------------------------
# JSON <-> tagged nodes
# ----------------------------------------------------------------------------------------------

def enc_int(n):
    if -LIMIT <= n <= LIMIT:
        return {"k": "int", "i": n}
    return {"k": "big", "g": [1 if n >= 0 else -1] + _digits(abs(n))}


def _digits(m):
    """Decimal digits of a non-negative int without str(int) (the interpreter refuses beyond 4300 digits)."""
    chunks = []
    base = 10 ** 18
    while m >= base:
        m, r = divmod(m, base)
        chunks.append(r)
    out = [int(c) for c in str(m)]
    for r in reversed(chunks):
        out += [int(c) for c in "%018d" % r]
    return out


def encode(v):
    """Python JSON-like value -> tagged node.  Anything that is not JSON becomes 'opaque'."""
    if v is None:
        return {"k": "null"}
    if v is True or v is False:
        return {"k": "bool", "b": v}
    if isinstance(v, enum.Enum):
        return {"k": "opaque", "s": "enum:" + type(v).__name__}
    if isinstance(v, int):
        return enc_int(int(v))
    if isinstance(v, float):
        if math.isfinite(v) and v == int(v):
            return enc_int(int(v))
        return {"k": "dec", "x": repr(v)}
    if isinstance(v, str):
        return {"k": "str", "s": str(v)}
    if isinstance(v, (list, tuple)):
        return {"k": "arr", "a": [encode(x) for x in v]}
    if isinstance(v, dict):
        if all(isinstance(key, str) for key in v):
            return {"k": "obj", "f": {key: encode(x) for key, x in v.items()}}
        return {"k": "opaque", "s": "dict-with-non-string-keys"}
    return {"k": "opaque", "s": type(v).__name__}


def dec_big(g):
    return (1 if g[0] >= 0 else -1) * int("".join(str(d) for d in g[1:]))


def seq(x):
    # TLC's ToJson prints an empty function / record as [] or {}; both mean "empty"
    return x if isinstance(x, list) else ([] if not x else list(x))


def fun(x):
    return x if isinstance(x, dict) else {}


def decode(n):
    k = n["k"]
    if k == "null":
        return None
    if k == "bool":
        return n["b"]
    if k == "int":
        return n["i"]
    if k == "big":
        return dec_big(n["g"])
    if k == "dec":
        return float(n["x"])
    if k == "str":
        return n["s"]
    if k == "arr":
        return [decode(x) for x in seq(n["a"])]
    if k == "obj":
        return {key: decode(x) for key, x in fun(n["f"]).items()}
    if k == "deep":                       # an object nested n levels deep (LspValue.JEq), expanded for the implementation
        v = None
        for _ in range(n["n"]):
            v = {"d": v}
        return v
    raise ValueError("not a JSON node: %r" % (n,))


def canon(n):
    """Normalise a node printed by TLC (empty containers) so it can be sent back to TLC."""
    k = n["k"]
    if k in ("arr", "tup"):
        return {"k": k, "a": [canon(x) for x in seq(n["a"])]}
    if k in ("obj", "map"):
        return {"k": k, "f": {key: canon(x) for key, x in fun(n["f"]).items()}}
    if k == "inst":
        return {"k": k, "cls": n["cls"], "p": {key: canon(x) for key, x in fun(n["p"]).items()}}
    if k == "enum":
        return {"k": k, "cls": n["cls"], "e": n["e"]}
    if k == "any":
        return {"k": k, "j": canon(n["j"])}
    return n


# ----------------------------------------------------------------------------------------------
# projection of Python objects
# ----------------------------------------------------------------------------------------------

def project(v, depth=0):
    if depth > 300:
        return {"k": "opaque", "s": "too-deep"}
    if v is None:
        return {"k": "none"}
    if v is True or v is False:
        return {"k": "bool", "b": v}
    if isinstance(v, enum.Enum):
        return {"k": "enum", "cls": type(v).__name__, "e": encode(v.value)}
    if isinstance(v, int):
        return enc_int(int(v))
    if isinstance(v, float):
        return {"k": "float", "x": repr(v)}
    if isinstance(v, str):
        return {"k": "str", "s": str(v)}
    if isinstance(v, list):
        return {"k": "arr", "a": [project(x, depth + 1) for x in v]}
    if isinstance(v, tuple):
        return {"k": "tup", "a": [project(x, depth + 1) for x in v]}
    if isinstance(v, dict):
        if all(isinstance(key, str) for key in v):
            return {"k": "map", "f": {key: project(x, depth + 1) for key, x in v.items()}}
        return {"k": "opaque", "s": "dict-with-non-string-keys"}
    if attrs.has(type(v)):
        return {"k": "inst", "cls": type(v).__name__,
                "p": {norm(a.name): project(getattr(v, a.name), depth + 1) for a in attrs.fields(type(v))}}
    return {"k": "opaque", "s": type(v).__name__}


# ----------------------------------------------------------------------------------------------
# the package under test
# ----------------------------------------------------------------------------------------------

def lenient_converter(converters, types):
    """A user-supplied converter with the package's hooks plus the application's own tolerant ones."""
    import enum
    import cattrs
    conv = converters.get_converter(cattrs.Converter())
    for name in dir(types):
        obj = getattr(types, name)
        if isinstance(obj, type) and issubclass(obj, enum.Enum) and obj is not enum.Enum:
            def tolerant(value, _, cls=obj):
                try:
                    return cls(value)
                except ValueError:
                    return next(iter(cls))
            conv.register_structure_hook(obj, tolerant)
            conv.register_unstructure_hook(obj, lambda v: "lenient")
    conv.register_structure_hook(int, lambda v, _: 0)
    conv.register_structure_hook(str, lambda v, _: "lenient")
    conv.register_unstructure_hook(int, lambda v: 0)
    conv.register_unstructure_hook(str, lambda v: "lenient")
    return conv


class Warmed:
    """Every call goes to the lenient converter first (its result is discarded), then to the pristine one."""

    def __init__(self, lenient, pristine):
        self.lenient, self.pristine = lenient, pristine

    def structure(self, data, cls):
        try:
            self.lenient.structure(data, cls)
        except Exception:  # noqa: BLE001
            pass
        return self.pristine.structure(data, cls)

    def unstructure(self, obj, cls=None):
        try:
            self.lenient.unstructure(obj, cls)
        except Exception:  # noqa: BLE001
            pass
        return self.pristine.unstructure(obj, cls)


class Package:
    def __init__(self):
        from lsprotocol import converters, types
        self.types = types
        self.converters = converters
        self._conv = None
        self._holders = {}
        self._attr_cache = {}

    @property
    def conv(self):
        if self._conv is None:
            cfg = os.environ.get("VERIF_CONV_CFG", "default")
            if cfg == "nodetail":        # a user-supplied converter with detailed validation switched off
                import cattrs
                self._conv = self.converters.get_converter(cattrs.Converter(detailed_validation=False))
            elif cfg == "after_generator":
                # the process has ALSO loaded the metamodel through the generator's model layer (a tool that regenerates and
                # then uses the package, a test-suite that does both): whatever the generator switches globally is still on
                import importlib
                import json as _json
                gm = importlib.import_module("generator.model")
                gm.create_lsp_model([_json.load(open(os.environ["VERIF_LSP_JSON"], encoding="utf-8"))])
                self._conv = self.converters.get_converter()
            elif cfg == "user":          # a converter the application created itself, all defaults
                import cattrs
                self._conv = self.converters.get_converter(cattrs.Converter())
            elif cfg == "after_lenient":
                # a pristine converter in a process where the application ALSO uses a converter it customised to be
                # lenient (undeclared enum values, any int, any str accepted), and uses it first on every input
                self._conv = Warmed(lenient_converter(self.converters, self.types), self.converters.get_converter())
            elif cfg == "second":        # not the first converter of the process
                self.converters.get_converter()
                self._conv = self.converters.get_converter()
            else:
                self._conv = self.converters.get_converter()
        return self._conv

    def cls_of(self, ref):
        kind, name = ref["kind"], ref["name"]
        t = self.types
        if kind == "structure":
            return getattr(t, name)
        if kind == "request":
            return t.METHOD_TO_TYPES[name][0]
        if kind == "response":
            return t.METHOD_TO_TYPES[name][1]
        if kind == "notification":
            return t.METHOD_TO_TYPES[name][0]
        if kind == "enum":
            return getattr(t, name)
        if kind == "andParams":
            return t.METHOD_TO_TYPES[name][2]
        if kind == "andRegOpts":
            return t.METHOD_TO_TYPES[name][3]
        raise KeyError(ref)

    def holder(self, alias_name):
        """One-field attrs class whose attribute is typed with the module-level alias."""
        if alias_name not in self._holders:
            self.conv  # make sure forward references of the package are resolved first
            ann = getattr(self.types, alias_name)
            cls = attrs.make_class("Holder_" + alias_name, {"value": attrs.field(type=ann)})
            ns = dict(vars(self.types))
            attrs.resolve_types(cls, ns, ns)
            self._holders[alias_name] = cls
        return self._holders[alias_name]

    def root_class(self, root):
        if root["kind"] == "alias":
            return self.holder(root["name"])
        return self.cls_of(root)

    def attr_map(self, cls):
        """norm(attribute name) -> attrs.Attribute, demanding that norm is injective on the class."""
        if cls not in self._attr_cache:
            m = {}
            for a in attrs.fields(cls):
                key = norm(a.name)
                if key in m:
                    raise ValueError("attribute names of %s collide under normalisation: %s" % (cls.__name__, key))
                m[key] = a
            self._attr_cache[cls] = m
        return self._attr_cache[cls]

    # -- building Python objects from abstract objects through the public constructors -----------
    def build(self, o, ann=None, memo=None):
        """memo (a dict): equal abstract instances / containers are built ONCE and the one Python object is used at every
        place they occur (sub-object sharing, as in Range(start=p, end=p))."""
        if memo is not None and o["k"] in ("inst", "arr", "map"):
            key = json.dumps([o, repr(ann)], sort_keys=True, default=str)
            if key in memo:
                return memo[key]
            v = self._build(o, ann, memo)
            memo[key] = v
            return v
        return self._build(o, ann, memo)

    def _build(self, o, ann=None, memo=None):
        k = o["k"]
        if k in ("null", "bool", "int", "big", "str"):
            v = decode(o)
            if isinstance(v, int) and not isinstance(v, bool) and _wants_float(ann):
                return float(v)
            return v
        if k == "dec":
            return float(o["x"])
        if k == "enum":
            E = self.cls_of(o["cls"])
            val = decode(o["e"])
            try:
                return E(val)
            except ValueError:
                return val                      # custom value of an open enumeration
        if k == "any":
            return decode(o["j"])
        if k == "arr":
            return [self.build(x, _elem_ann(ann), memo) for x in seq(o["a"])]
        if k == "tup":
            return tuple(self.build(x, None, memo) for x in seq(o["a"]))
        if k == "map":
            return {key: self.build(x, _map_val_ann(ann), memo) for key, x in fun(o["f"]).items()}
        if k == "inst":
            if o["cls"]["kind"] == "literal":
                cls = _attrs_class_in(ann)       # an anonymous literal class is found through the annotation that holds it
                if cls is None:
                    raise LookupError("no class for an anonymous literal in annotation %r" % (ann,))
            else:
                cls = self.cls_of(o["cls"])
            amap = self.attr_map(cls)
            kwargs = {}
            for pname, val in fun(o["p"]).items():
                a = amap.get(norm(pname))
                if a is None:
                    raise LookupError("class %s has no attribute for property %s" % (cls.__name__, pname))
                kwargs[a.name] = self.build(val, a.type, memo)
            return cls(**kwargs)
        raise ValueError("not an abstract object: %r" % (o,))


def _wants_float(ann):
    """Does the annotation (possibly Optional[...]) name float?  Used only to hand a JSON
    number that happens to be integral to a float-annotated attribute as a float."""
    if ann is float:
        return True
    args = getattr(ann, "__args__", None)
    if args and getattr(ann, "__origin__", None) is not None:
        import typing
        if ann.__origin__ is typing.Union:
            return any(a is float for a in args) and not any(a is int for a in args)
    return False


def _attrs_class_in(ann, depth=0):
    if depth > 6 or ann is None:
        return None
    if isinstance(ann, type) and attrs.has(ann):
        return ann
    for a in getattr(ann, "__args__", ()) or ():
        r = _attrs_class_in(a, depth + 1)
        if r is not None:
            return r
    return None


def _map_val_ann(ann, depth=0):
    import typing
    args = getattr(ann, "__args__", None)
    if not args or depth > 4:
        return None
    if getattr(ann, "__origin__", None) is typing.Union:
        for a in args:
            r = _map_val_ann(a, depth + 1)
            if r is not None:
                return r
        return None
    return args[1] if len(args) == 2 else None


def _elem_ann(ann):
    args = getattr(ann, "__args__", None)
    if not args:
        return None
    import typing
    if getattr(ann, "__origin__", None) is typing.Union:
        for a in args:
            r = _elem_ann(a)
            if r is not None:
                return r
        return None
    return args[0]
