"""Bookkeeping for seeded regressions (changes written by independent sub-agents).

  python -m harness.seedtool confirm <id>            confirm patch+demo in a scratch worktree, copy into /verif/seeded/<id>/
  python -m harness.seedtool detect <id> <Cxx>...    apply the kept patch to /repo, run the quick checks, undo the patch
"""
import json
import os
import shutil
import subprocess
import sys

from . import common

SEED = "/tmp/seed"


def sh(cmd, **kw):
    return subprocess.run(cmd, shell=True, stdout=subprocess.PIPE, stderr=subprocess.STDOUT, text=True, **kw)


def confirm(sid):
    patch = os.path.join(SEED, sid + ".patch.diff")
    demo = os.path.join(SEED, sid + "_demo.py")
    meta = json.load(open(os.path.join(SEED, sid + ".meta.json")))
    wt = "/tmp/confirm-" + sid
    sh("git -C %s worktree remove --force %s" % (common.REPO, wt))
    r = sh("git -C %s worktree add -q --detach %s HEAD" % (common.REPO, wt))
    ran = []
    try:
        d0 = sh("%s %s %s" % (common.PY, demo, wt), timeout=900)
        ran.append("demo on unmodified tree: exit %d" % d0.returncode)
        a = sh("git -C %s apply %s" % (wt, patch))
        if a.returncode != 0:
            print("patch does not apply:", a.stdout)
            return 1
        t = sh("cd %s && %s -m pytest -q -p no:cacheprovider 2>&1 | tail -1" % (wt, common.PY), timeout=900)
        ran.append("test suite with change: " + t.stdout.strip())
        d1 = sh("%s %s %s" % (common.PY, demo, wt), timeout=900)
        ran.append("demo with change: exit %d" % d1.returncode)
        ok = d0.returncode == 0 and d1.returncode != 0 and " passed" in t.stdout and "failed" not in t.stdout
        print("\n".join(ran))
        if not ok:
            print("NOT CONFIRMED", d0.stdout[-500:], d1.stdout[-500:])
            return 1
        out = os.path.join(common.VERIF, "seeded", sid)
        os.makedirs(out, exist_ok=True)
        shutil.copy(patch, os.path.join(out, "patch.diff"))
        shutil.copy(demo, os.path.join(out, "demo.py"))
        meta["confirmed"] = ran
        meta["breaks"] = meta.get("property", sid[:3])
        json.dump(meta, open(os.path.join(out, "meta.json"), "w"), indent=1)
        print("CONFIRMED ->", out)
        return 0
    finally:
        sh("git -C %s worktree remove --force %s" % (common.REPO, wt))
        shutil.rmtree(wt, ignore_errors=True)


def detect_scratch(sid, props, tier="quick"):
    """Like detect, but on a scratch worktree (VERIF_REPO) so that /repo stays untouched while
    background runs use it.  Only a convenience for testing the machinery: registered checks run on /repo."""
    out = os.path.join(common.VERIF, "seeded", sid)
    patch = os.path.join(out, "patch.diff")
    wt = "/tmp/detect-" + sid
    sh("git -C %s worktree remove --force %s" % (common.REPO, wt))
    sh("git -C %s worktree add -q --detach %s HEAD" % (common.REPO, wt))
    results = {}
    try:
        a = sh("git -C %s apply %s" % (wt, patch))
        if a.returncode != 0:
            print("patch does not apply:", a.stdout)
            return 2
        for p in props:
            r = sh("cd %s && VERIF_REPO=%s VERIF_EVIDENCE=%s bin/check %s --tier %s" % (common.VERIF, wt, wt + "-evidence", p, tier), timeout=7200)
            viol = [l for l in r.stdout.splitlines() if l.startswith("VIOLATION")]
            results[p] = {"exit": r.returncode, "violations": len(viol), "first": viol[:2], "tail": r.stdout.strip().splitlines()[-1:]}
            print(p, "exit", r.returncode, "violations", len(viol), (viol[0][:260] if viol else r.stdout.strip().splitlines()[-1][:200]))
    finally:
        sh("git -C %s worktree remove --force %s" % (common.REPO, wt))
        shutil.rmtree(wt, ignore_errors=True)
        shutil.rmtree(wt + "-evidence", ignore_errors=True)
    mp = os.path.join(out, "meta.json")
    meta = json.load(open(mp))
    meta.setdefault("detection", {})[tier] = results
    json.dump(meta, open(mp, "w"), indent=1)
    return 0


def detect(sid, props, tier="quick"):
    out = os.path.join(common.VERIF, "seeded", sid)
    patch = os.path.join(out, "patch.diff")
    st = sh("git -C %s status --porcelain --untracked-files=no" % common.REPO)
    if st.stdout.strip():
        print("refusing: /repo has local modifications")
        return 2
    a = sh("git -C %s apply %s" % (common.REPO, patch))
    if a.returncode != 0:
        print("patch does not apply to /repo:", a.stdout)
        return 2
    results = {}
    try:
        for p in props:
            r = sh("cd %s && bin/check %s --tier %s" % (common.VERIF, p, tier), timeout=7200)
            viol = [l for l in r.stdout.splitlines() if l.startswith("VIOLATION")]
            results[p] = {"exit": r.returncode, "violations": len(viol), "first": viol[:2], "tail": r.stdout.strip().splitlines()[-1:]}
            print(p, "exit", r.returncode, "violations", len(viol), (viol[0][:260] if viol else r.stdout.strip().splitlines()[-1][:200]))
    finally:
        sh("git -C %s checkout -- ." % common.REPO)
    mp = os.path.join(out, "meta.json")
    meta = json.load(open(mp))
    meta.setdefault("detection", {})[tier] = results
    json.dump(meta, open(mp, "w"), indent=1)
    # evidence files now describe the mutated tree: regenerate them on the clean tree later
    return 0


if __name__ == "__main__":
    if sys.argv[1] == "confirm":
        sys.exit(confirm(sys.argv[2]))
    tier = "quick"
    args = sys.argv[3:]
    if "--thorough" in args:
        tier = "thorough"
        args.remove("--thorough")
    if sys.argv[1] == "detect-scratch":
        sys.exit(detect_scratch(sys.argv[2], args, tier))
    sys.exit(detect(sys.argv[2], args, tier))
