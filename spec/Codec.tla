-------------------------------- MODULE Codec --------------------------------
(***************************************************************************)
(* State machine A, spec side: the universe of protocol values as a        *)
(* transition system.  A state is an abstract protocol object of a root    *)
(* type; Refine changes exactly one position (sets an unset property to    *)
(* the minimal value of one alternative, switches a union alternative,     *)
(* moves a scalar through its boundary alphabet, replaces an enum value,   *)
(* grows an array / map).  BFS to depth K visits every value that differs  *)
(* from the minimal instance in at most K positions.                       *)
(*                                                                          *)
(* TLC explores this graph, checks the spec-level invariants below on      *)
(* every state and prints each distinct state; the harness replays the     *)
(* printed states into the real converter (sessions) and CodecTrace.tla    *)
(* judges what the implementation did.                                     *)
(***************************************************************************)
EXTENDS LspValue

CONSTANTS K,        \* refinement depth bound
          NShards,  \* roots are split over NShards TLC processes ...
          Shard,    \* ... this one takes the roots with index % NShards = Shard
          Emit,     \* print every distinct state as a JSON line
          RootSel,  \* "all", one root kind, "unionholder", or "named" (roots listed in RootNames)
          RootNames,
          FromMax,  \* start from the maximal instance (recursion budget 2) instead of the minimal one
          KU,       \* unknown keys below union positions are added to states of depth < KU
          KV,       \* variants (deviations, dropped specials, unknown keys) are taken from states of depth < KV (0 = none)
          KL        \* long-array variants are taken from states of depth < KL (0 = none)

Root(kind, name) == [kind |-> kind, name |-> name]
RootSeq ==
    [i \in DOMAIN Structs |-> Root("structure", Structs[i].name)]
    \o [i \in DOMAIN Aliases |-> Root("alias", Aliases[i].name)]
    \o [i \in DOMAIN Reqs |-> Root("request", Reqs[i].method)]
    \o [i \in DOMAIN Reqs |-> Root("response", Reqs[i].method)]
    \o [i \in DOMAIN Notifs |-> Root("notification", Notifs[i].method)]
\* does a type contain a union with at least two non-null alternatives (directly or in a container)?
RECURSIVE HasRealUnion(_)
HasRealUnion(t) == CASE t.kind = "or" -> Cardinality({i \in DOMAIN t.items : ~IsNullT(t.items[i])}) >= 2
                                          \/ \E i \in DOMAIN t.items : HasRealUnion(t.items[i])
                     [] t.kind = "array" -> HasRealUnion(t.element)
                     [] t.kind = "map" -> HasRealUnion(t.value)
                     [] t.kind = "reference" /\ t.name \in AName /\ t.name # "LSPAny" -> HasRealUnion(ADef[t.name].type)
                     [] OTHER -> FALSE
UnionHolder(r) == r.kind = "structure" /\ \E i \in DOMAIN FlatM[r.name] : HasRealUnion(FlatM[r.name][i].type)
\* responses whose result is a union with at least two array alternatives (hooks decide by looking at elements)
RECURSIVE ArrayAlts(_)
ArrayAlts(t) == CASE t.kind = "or" -> UNION {ArrayAlts(t.items[i]) : i \in DOMAIN t.items}
                  [] t.kind = "array" -> {t}
                  [] t.kind = "reference" /\ t.name \in AName /\ t.name # "LSPAny" -> ArrayAlts(ADef[t.name].type)
                  [] OTHER -> {}
ArrayUnion(r) == r.kind = "response" /\ "result" \in DOMAIN ReqDef[r.name] /\ Cardinality(ArrayAlts(ReqDef[r.name].result)) >= 2
KindOK(r) == RootSel = "all" \/ (RootSel = "arrayunion" /\ ArrayUnion(r)) \/ RootSel = r.kind \/ (RootSel = "unionholder" /\ UnionHolder(r))
             \/ (RootSel = "named" /\ r.name \in RootNames)
Roots == {RootSeq[i] : i \in {i \in DOMAIN RootSeq : i % NShards = Shard /\ KindOK(RootSeq[i])}}

(***************************************************************************)
(* Scalar alphabets (boundary values).                                      *)
(***************************************************************************)
StrAlpha  == <<"s", "", "ü✓", "a\"b\\c\nd">>          \* plain, empty, non-ASCII, characters that need escaping
IntAlpha  == <<JInt(0), JInt(1), JInt(-1), JBig(1, MaxD), JBig(-1, MinAbsD)>>
UIntAlpha == <<JInt(0), JInt(1), JBig(1, MaxD)>>
DecAlpha  == <<JDec("0.5"), JInt(1), JDec("-1.5")>>
BoolAlpha == <<JBool(FALSE), JBool(TRUE)>>
AnyAlpha  == <<JNull, JInt(1), JStr("s"), JArr(<<JInt(1), JStr("s")>>),
               JObj("a" :> JObj("b" :> JNull)), JArr(<<JNull, JBool(TRUE), JDec("0.5"), JArr(<<>>)>>)>>
\* payloads of undeclared keys: the LSPAny alphabet and an object nested 300 levels deep (what is ignored must be ignored whole)
DeepObj(n) == [k |-> "deep", n |-> n]       \* {"d": {"d": ... null}} nested n levels, see LspValue.JEq
\* ... and a number no double can hold (valid JSON text; Python reads it as infinity)
UnkAlpha == AnyAlpha \o <<DeepObj(300), JDec("1e999")>>
CustomStr == "x-custom"
CustomInt == 99

BaseAlpha(b) == CASE b \in StringBases -> [i \in DOMAIN StrAlpha |-> JStr(StrAlpha[i])]
                  [] b = "integer" -> IntAlpha
                  [] b = "uinteger" -> UIntAlpha
                  [] b = "decimal" -> DecAlpha
                  [] b = "boolean" -> BoolAlpha
                  [] b = "null" -> <<JNull>>

\* spelling variants the harness derives from the model by string operations TLA+ lacks (see codec_check.alias_table):
\* property name -> near-miss keys, and "@enum:<name>" -> custom values that differ from a declared one only in letter case
Alias == IF "ALIAS_TABLE" \in DOMAIN IOEnv THEN JsonDeserialize(IOEnv.ALIAS_TABLE) ELSE [n \in {} |-> <<>>]
SeqSetA(q) == {q[i] : i \in DOMAIN q}
EnumNear(e) == IF ("@enum:" \o e) \in DOMAIN Alias THEN SeqSetA(Alias["@enum:" \o e]) ELSE {}
EnumNode(e, val) == IF EnumBase(e) = "string" THEN JStr(val) ELSE JInt(val)
\* custom values of an open enumeration: an ordinary one and a falsy one (when not declared)
\* ... one next to the declared ones: the same spelling in another letter case / the successor of the largest value
MaxOf(S) == CHOOSE x \in S : \A y \in S : y <= x
CustomVals(e) == (IF EnumBase(e) = "string" THEN {CustomStr, ""} \cup EnumNear(e)
                  ELSE {CustomInt, 0, MaxOf(EnumVals(e)) + 1}) \ EnumVals(e)
EnumAlpha(e) == {OEnum(e, EnumNode(e, val)) : val \in EnumVals(e)}
                \cup (IF PyOpen(e) THEN {OEnum(e, EnumNode(e, val)) : val \in CustomVals(e)} ELSE {})

(***************************************************************************)
(* Minimal instance of a type: required properties only, first union       *)
(* alternative, empty containers.                                          *)
(***************************************************************************)
RECURSIVE MinV(_)
MinInst(c) == LET ps == PropsOf(c)
                  req == {ps[i].name : i \in {i \in DOMAIN ps : Required(ps[i])}}
              IN OInst(c, [n \in req |-> MinV(ps[CHOOSE i \in DOMAIN ps : ps[i].name = n].type)])
MinV(t) ==
    CASE t.kind = "base" -> BaseAlpha(t.name)[1]
      [] t.kind = "cls" -> MinInst(t.cls)
      [] t.kind = "reference" ->
            IF t.name \in SName THEN MinInst(ClsS(t.name))
            ELSE IF t.name \in EName THEN OEnum(t.name, EnumNode(t.name, EDef[t.name].values[1].value))
            ELSE IF t.name = "LSPAny" THEN OAny(AnyAlpha[1])
            ELSE MinV(ADef[t.name].type)
      [] t.kind = "array" -> OArr(<<>>)
      [] t.kind = "map" -> OMap(<<>>)
      [] t.kind = "or" -> MinV(t.items[1])
      [] t.kind = "tuple" -> OTup([i \in DOMAIN t.items |-> MinV(t.items[i])])
      [] t.kind = "literal" -> IF t.value.properties = <<>> THEN OAny(JObj(<<>>)) ELSE MinInst(ClsLitOf(t))
      [] t.kind = "stringLiteral" -> JStr(t.value)

(***************************************************************************)
(* Maximal instance: every property set (nested instances too, down to a   *)
(* recursion budget), first non-null alternative, singleton maps, arrays    *)
(* with one element per alternative of their element type.                  *)
(* Values near the maximal instance exercise hooks that probe for keys     *)
(* while many other keys are present.                                      *)
(***************************************************************************)
\* the alternatives of a type with unions and aliases of unions flattened, null dropped, in declaration order
RECURSIVE AltTypes(_), AltTypesSeq(_)
AltTypesSeq(items) == IF items = <<>> THEN <<>> ELSE AltTypes(Head(items)) \o AltTypesSeq(Tail(items))
AltTypes(t) == CASE t.kind = "or" -> AltTypesSeq(SelectSeq(t.items, LAMBDA x : ~IsNullT(x)))
                 [] t.kind = "reference" /\ t.name \in AName /\ t.name # "LSPAny" -> AltTypes(ADef[t.name].type)
                 [] OTHER -> <<t>>

RECURSIVE MaxV(_, _)
MaxInst(c, fuel) ==
    LET ps == PropsOf(c)
        \* an omittable property is never given the value null (null ~ absent there, DESIGN 4.2)
        keep == {i \in DOMAIN ps : ~Omittable(ps[i]) \/ Wire(MaxV(ps[i].type, fuel)).k # "null"}
    IN
    OInst(c, [n \in {ps[i].name : i \in keep} |->
                 LET p == ps[CHOOSE i \in DOMAIN ps : ps[i].name = n] IN MaxV(p.type, fuel)])
MaxV(t, fuel) ==
    CASE t.kind = "cls" -> IF fuel = 0 THEN MinInst(t.cls) ELSE MaxInst(t.cls, fuel - 1)
      [] t.kind = "reference" ->
            IF t.name \in SName THEN (IF fuel = 0 THEN MinInst(ClsS(t.name)) ELSE MaxInst(ClsS(t.name), fuel - 1))
            ELSE IF t.name \in EName THEN MinV(t)
            ELSE IF t.name = "LSPAny" THEN OAny(AnyAlpha[5])          \* a nested object, never null (DESIGN 4.2)
            ELSE MaxV(ADef[t.name].type, fuel)
      \* one element PER ALTERNATIVE of the element type: arrays of unions are heterogeneous in the maximal instance
      [] t.kind = "array" -> LET alts == AltTypes(t.element) IN OArr([i \in DOMAIN alts |-> MaxV(alts[i], fuel)])
      [] t.kind = "map" -> OMap("key" :> MaxV(t.value, fuel))
      [] t.kind = "or" -> LET nn == SelectSeq(t.items, LAMBDA x : ~IsNullT(x)) IN
                          IF nn = <<>> THEN JNull ELSE MaxV(nn[1], fuel)
      [] t.kind = "tuple" -> OTup([i \in DOMAIN t.items |-> MaxV(t.items[i], fuel)])
      [] t.kind = "literal" -> IF t.value.properties = <<>> THEN OAny(JObj(<<>>))
                               ELSE (IF fuel = 0 THEN MinInst(ClsLitOf(t)) ELSE MaxInst(ClsLitOf(t), fuel - 1))
      [] OTHER -> MinV(t)

\* a union with a plain-string alternative next to structure alternatives: the string may well SPELL a property name of
\* one of those structures (a hook that tests `"key" in value` must not take the string for an object)
RECURSIVE DigitString(_)
DigitString(n) == IF n = 0 THEN "" ELSE (IF n % 2 = 1 THEN "1" ELSE "0") \o DigitString(n - 1)
KeyStrings(t) ==
    LET alts == AltTypes(t)
        structs == {i \in DOMAIN alts : alts[i].kind = "reference" /\ alts[i].name \in SName}
        tuples == {i \in DOMAIN alts : alts[i].kind = "tuple"}
    IN IF \E i \in DOMAIN alts : alts[i].kind = "base" /\ alts[i].name = "string"
       THEN UNION {{JStr(FlatM[alts[i].name][k].name) : k \in DOMAIN FlatM[alts[i].name]} : i \in structs}
            \* ... or, next to a tuple alternative, be as long as the tuple and made of digits (it unpacks like one)
            \cup {JStr(DigitString(Len(alts[i].items))) : i \in tuples}
       ELSE {}
\* the minimal object of every alternative (unions and aliases of unions flattened)
RECURSIVE AltMins(_)
AltMins(t) == CASE t.kind = "or" -> UNION {AltMins(t.items[i]) : i \in DOMAIN t.items} \cup KeyStrings(t)
                [] t.kind = "reference" /\ t.name \in AName /\ t.name # "LSPAny" -> AltMins(ADef[t.name].type)
                [] t.kind = "reference" /\ t.name \in EName -> EnumAlpha(t.name)   \* every declared value at every use site (C13)
                \* a container appears empty or with one element of each alternative
                [] t.kind = "array" -> {OArr(<<>>)} \cup {OArr(<<m>>) : m \in AltMins(t.element)}
                [] t.kind = "map" -> {OMap(<<>>)} \cup {OMap("key" :> m) : m \in AltMins(t.value)}
                [] OTHER -> {MinV(t)}

(***************************************************************************)
(* Refinements(o, t): all objects that differ from o in one position.      *)
(***************************************************************************)
Others(alpha, x) == {alpha[i] : i \in {i \in DOMAIN alpha : ~OEq(alpha[i], x)}}

RECURSIVE Ref(_, _)
RefInst(o) ==
    LET ps == PropsOf(o.cls) IN
    \* an omittable property is never given the value null (null ~ absent there, DESIGN 4.2)
    UNION { IF ps[i].name \in DOMAIN o.p
            THEN { [o EXCEPT !.p[ps[i].name] = c] :
                   c \in {c \in Ref(o.p[ps[i].name], ps[i].type) : ~Omittable(ps[i]) \/ Wire(c).k # "null"} }
                 \* ... or the property is unset again (only when walking down from the maximal instance)
                 \cup (IF FromMax /\ ~Required(ps[i])
                       THEN { [o EXCEPT !.p = [n \in DOMAIN o.p \ {ps[i].name} |-> o.p[n]]] } ELSE {})
            ELSE { [o EXCEPT !.p = (ps[i].name :> m) @@ o.p] :
                   m \in {m \in AltMins(ps[i].type) : ~Omittable(ps[i]) \/ Wire(m).k # "null"} }
          : i \in DOMAIN ps }
RefSeq(o, elemT) ==
    (IF Len(o.a) < 2 THEN { [o EXCEPT !.a = Append(o.a, m)] : m \in AltMins(elemT) } ELSE {})
    \cup UNION { { [o EXCEPT !.a[i] = c] : c \in Ref(o.a[i], elemT) } : i \in DOMAIN o.a }
Ref(o, t) ==
    CASE t.kind = "base" -> Others(BaseAlpha(t.name), o)
      [] t.kind = "cls" -> RefInst(o)
      [] t.kind = "reference" ->
            IF t.name \in SName THEN RefInst(o)
            ELSE IF t.name \in EName THEN {e \in EnumAlpha(t.name) : ~OEq(e, o)}
            ELSE IF t.name = "LSPAny" THEN {OAny(AnyAlpha[i]) : i \in {i \in DOMAIN AnyAlpha : ~JEq(AnyAlpha[i], o.j)}}
            ELSE Ref(o, ADef[t.name].type)
      [] t.kind = "array" -> RefSeq(o, t.element)
      [] t.kind = "map" ->
            IF DOMAIN o.f = {} THEN { [o EXCEPT !.f = ("key" :> m)] : m \in AltMins(t.value) }
            ELSE UNION { { [o EXCEPT !.f[key] = c] : c \in Ref(o.f[key], t.value) } : key \in DOMAIN o.f }
      [] t.kind = "or" ->
            LET cur == {i \in DOMAIN t.items : Shape(o, t.items[i])} IN
            (UNION {Ref(o, t.items[i]) : i \in cur})
            \cup (UNION {AltMins(t.items[i]) : i \in DOMAIN t.items \ cur})
            \cup {ks \in KeyStrings(t) : ~OEq(ks, o)}
      [] t.kind = "tuple" ->
            UNION { { [o EXCEPT !.a[i] = c] : c \in Ref(o.a[i], t.items[i]) } : i \in DOMAIN t.items }
      [] t.kind = "literal" -> IF t.value.properties = <<>> THEN {} ELSE RefInst(o)
      [] t.kind = "stringLiteral" -> {}
      [] OTHER -> {}

(***************************************************************************)
(* Variants of a value (one per action below).  Each is the JSON the       *)
(* implementation is given (svW) and, where the change is expressible on   *)
(* the object, the modified abstract object (for the constructor path).    *)
(*   dropreq     remove a required property (type admits no null at all)   *)
(*   intval      put a boundary integer (in or out of range) at a directly *)
(*               integer-typed property                       (C11, C12)   *)
(*   enum        put an undeclared value where a closed enumeration is     *)
(*               expected (property, array element, map value, union)      *)
(*   lit         replace a string literal by another string                *)
(*   dropspecial remove an always-written property (must be accepted, C10) *)
(*   unk         add an undeclared key at a protocol-object node    (C15)  *)
(***************************************************************************)
NoVar == [vk |-> "none"]
TopProps(r) == CASE r.kind = "structure" -> FlatM[r.name]
                 [] r.kind = "request" -> RequestProps(r.name)
                 [] r.kind = "response" -> ResponseProps(r.name)
                 [] r.kind = "notification" -> NotificationProps(r.name)
                 [] OTHER -> <<>>

IntBoundary(b) ==
    IF b = "integer"
    THEN <<JBig(-1, MinM1D), JBig(-1, MinAbsD), JBig(-1, <<2,1,4,7,4,8,3,6,4,7>>), JInt(-1), JInt(0), JInt(1),
           JBig(1, <<2,1,4,7,4,8,3,6,4,6>>), JBig(1, MaxD), JBig(1, MaxP1D),
           JBig(1, Two32D), JBig(-1, Two32D), JBig(1, Two63D), JBig(-1, Two63D)>>
    ELSE <<JInt(-1), JInt(0), JInt(1), JBig(1, <<2,1,4,7,4,8,3,6,4,6>>), JBig(1, MaxD), JBig(1, MaxP1D),
           JBig(-1, MinAbsD), JBig(1, Two32D), JBig(-1, Two32D), JBig(1, Two63D), JBig(-1, Two63D)>>

CustomNode(e) == EnumNode(e, IF EnumBase(e) = "string" THEN CustomStr ELSE CustomInt)
RECURSIVE BadEnum(_)
\* (for an integer-valued enumeration also the undeclared number written with a fraction part, 99.0)
BadEnum(t) == CASE t.kind = "reference" /\ t.name \in EName ->
                      IF PyOpen(t.name) THEN {}
                      ELSE {CustomNode(t.name)} \cup (IF EnumBase(t.name) = "string" THEN {} ELSE {JDec("99.0")})
                [] t.kind = "reference" /\ t.name \in AName /\ t.name # "LSPAny" -> BadEnum(ADef[t.name].type)
                [] t.kind = "array" -> {JArr(<<b>>) : b \in BadEnum(t.element)}
                [] t.kind = "map" -> {JObj("key" :> b) : b \in BadEnum(t.value)}
                [] t.kind = "or" -> UNION {BadEnum(t.items[i]) : i \in DOMAIN t.items}
                [] OTHER -> {}

WithoutKey(j, key) == JObj([n \in DOMAIN j.f \ {key} |-> j.f[n]])
WithKey(j, key, node) == JObj((key :> node) @@ j.f)

\* JSON variants with one undeclared key added at one protocol-object node
UnkKey == "x-undeclared"
RECURSIVE Unk(_, _, _)
Unk(ob, j, payload) ==
    CASE ob.k = "inst" ->
            {WithKey(j, UnkKey, payload)}
            \cup UNION { { [j EXCEPT !.f[n] = c] : c \in Unk(ob.p[n], j.f[n], payload) } : n \in DOMAIN ob.p }
      [] ob.k \in {"arr", "tup"} ->
            UNION { { [j EXCEPT !.a[i] = c] : c \in Unk(ob.a[i], j.a[i], payload) } : i \in DOMAIN ob.a }
      [] ob.k = "map" ->
            UNION { { [j EXCEPT !.f[key] = c] : c \in Unk(ob.f[key], j.f[key], payload) } : key \in DOMAIN ob.f }
      [] OTHER -> {}

\* "near-miss" keys: undeclared keys that are a spelling variant of a declared property of the very
\* node they are added to (snake_case, lower case, keyword-escaped).  The variants are a string table
\* computed by the harness from the property names (TLC cannot take strings apart).
AliasKeys(cls) == LET ps == PropsOf(cls)
                      declared == {ps[i].name : i \in DOMAIN ps}
                  IN (UNION {SeqSet(Alias[ps[i].name]) : i \in {i \in DOMAIN ps : ps[i].name \in DOMAIN Alias}}) \ declared
RECURSIVE NearMiss(_, _, _)
NearMiss(ob, j, payload) ==
    CASE ob.k = "inst" ->
            {WithKey(j, key, payload) : key \in AliasKeys(ob.cls)}
            \cup UNION { { [j EXCEPT !.f[n] = c] : c \in NearMiss(ob.p[n], j.f[n], payload) } : n \in DOMAIN ob.p }
      [] ob.k \in {"arr", "tup"} ->
            UNION { { [j EXCEPT !.a[i] = c] : c \in NearMiss(ob.a[i], j.a[i], payload) } : i \in DOMAIN ob.a }
      [] ob.k = "map" ->
            UNION { { [j EXCEPT !.f[key] = c] : c \in NearMiss(ob.f[key], j.f[key], payload) } : key \in DOMAIN ob.f }
      [] OTHER -> {}

\* the same, but only at nodes at or below a property whose type contains a real union (where
\* hand-written hooks look at keys); used for deeper states
UnkPayloads == <<JObj("a" :> JObj("b" :> JNull))>>
RECURSIVE UnkU(_, _, _)
UnkU(ob, j, payload) ==
    CASE ob.k = "inst" ->
            UNION { LET p == PropNamed(PropsOf(ob.cls), n) IN
                    IF HasRealUnion(p.type)
                    THEN { [j EXCEPT !.f[n] = c] : c \in Unk(ob.p[n], j.f[n], payload) }
                    ELSE { [j EXCEPT !.f[n] = c] : c \in UnkU(ob.p[n], j.f[n], payload) }
                  : n \in DOMAIN ob.p }
      [] ob.k \in {"arr", "tup"} ->
            UNION { { [j EXCEPT !.a[i] = c] : c \in UnkU(ob.a[i], j.a[i], payload) } : i \in DOMAIN ob.a }
      [] ob.k = "map" ->
            UNION { { [j EXCEPT !.f[key] = c] : c \in UnkU(ob.f[key], j.f[key], payload) } : key \in DOMAIN ob.f }
      [] OTHER -> {}

(***************************************************************************)
(* The transition system.                                                   *)
(***************************************************************************)
VARIABLES svRoot,   \* the root type of this behaviour
          svObj,    \* the abstract object (intended reading)
          svW,      \* the JSON handed to the implementation
          svVar,    \* the variant descriptor, NoVar for plain values
          svDepth,  \* number of refinements so far
          svFrom    \* the top-level property the last refinement changed and its value before (not part of VIEW):
                    \* an edge of the value graph is an ASSIGNMENT on a live object (sessions of kind "mutate")
vars == <<svRoot, svObj, svW, svVar, svDepth, svFrom>>

NoFrom == [name |-> "", had |-> FALSE, v |-> JNull]
\* a refinement changes one position, which lies below exactly one top-level property of an instance
FromOf(a, b) == IF a.k # "inst" \/ b.k # "inst" THEN NoFrom
                ELSE LET n == CHOOSE n \in DOMAIN a.p \cup DOMAIN b.p :
                                  n \notin DOMAIN a.p \/ n \notin DOMAIN b.p \/ ~OEq(a.p[n], b.p[n])
                     IN [name |-> n, had |-> n \in DOMAIN a.p, v |-> IF n \in DOMAIN a.p THEN a.p[n] ELSE JNull]

Init == /\ svRoot \in Roots
        /\ svObj = (IF FromMax THEN MaxV(RootType(svRoot), 2) ELSE MinV(RootType(svRoot)))
        /\ svW = Wire(svObj)
        /\ svVar = NoVar
        /\ svDepth = 0
        /\ svFrom = NoFrom

Refine == /\ svDepth < K /\ svVar.vk = "none"
          /\ \E o2 \in Ref(svObj, RootType(svRoot)) : svObj' = o2 /\ svW' = Wire(o2) /\ svFrom' = FromOf(svObj, o2)
          /\ svDepth' = svDepth + 1
          /\ UNCHANGED <<svRoot, svVar>>

CanVary == svVar.vk = "none" /\ svDepth < KV
CanDeviate == CanVary /\ svRoot.kind = "structure"     \* C11 / C12 speak about structures
Same == UNCHANGED <<svRoot, svDepth, svFrom>>
PropV(kind, name) == [vk |-> kind, name |-> name]

DropRequired ==
    /\ CanDeviate
    /\ \E i \in DOMAIN TopProps(svRoot) : LET p == TopProps(svRoot)[i] IN
          /\ Required(p) /\ ~SemNull(p.type) /\ p.name \in DOMAIN svObj.p
          /\ svObj' = [svObj EXCEPT !.p = [n \in DOMAIN svObj.p \ {p.name} |-> svObj.p[n]]]
          /\ svW' = WithoutKey(svW, p.name)
          /\ svVar' = PropV("dropreq", p.name)
    /\ Same

IntValue ==
    /\ CanDeviate
    /\ \E i \in DOMAIN TopProps(svRoot) : LET p == TopProps(svRoot)[i] IN
          /\ p.type.kind = "base" /\ p.type.name \in {"integer", "uinteger"}
          /\ \E b \in DOMAIN IntBoundary(p.type.name) : LET node == IntBoundary(p.type.name)[b] IN
                /\ svObj' = [svObj EXCEPT !.p = (p.name :> node) @@ svObj.p]
                /\ svW' = WithKey(svW, p.name, node)
                /\ svVar' = PropV("intval", p.name)
    /\ Same

BadEnumValue ==
    /\ CanDeviate
    /\ \E i \in DOMAIN TopProps(svRoot) : LET p == TopProps(svRoot)[i] IN
          \E bad \in {b \in BadEnum(p.type) : ~Valid(b, p.type)} :
                /\ svW' = WithKey(svW, p.name, bad)
                /\ svVar' = PropV("enum", p.name)
    /\ UNCHANGED svObj
    /\ Same

\* another string in place of a literal: an unrelated one and the empty string
OtherLiterals == {"x-other-literal", ""}
OtherLiteral ==
    /\ CanDeviate
    /\ \E i \in DOMAIN TopProps(svRoot) : LET p == TopProps(svRoot)[i] IN
          /\ IsLit(p)
          /\ \E s \in OtherLiterals \ {p.type.value} :
                /\ svObj' = [svObj EXCEPT !.p = (p.name :> JStr(s)) @@ svObj.p]
                /\ svW' = WithKey(svW, p.name, JStr(s))
                /\ svVar' = PropV("lit", p.name)
    /\ Same

(***************************************************************************)
(* The four deviations of C11 at a NESTED protocol object.  Every           *)
(* structure is a root of its own, so a structure function that is          *)
(* compositional is already covered there; a hand-written hook for a        *)
(* nested or recursive position need not be.  OwnDev(ob, j): the JSON       *)
(* forms of instance ob with one of ITS OWN properties deviating; Dev walks *)
(* the abstract object and applies OwnDev at one nested instance.  A nested *)
(* deviation below a union may land on another alternative: only results   *)
(* that are invalid for the ROOT type count.                                 *)
(***************************************************************************)
OwnDev(ob, j) ==
    LET ps == PropsOf(ob.cls) IN
    UNION { LET p == ps[i] IN
            (IF Required(p) /\ ~SemNull(p.type) /\ p.name \in DOMAIN j.f THEN {WithoutKey(j, p.name)} ELSE {})
            \cup (IF IsLit(p) THEN {WithKey(j, p.name, JStr(s)) : s \in OtherLiterals \ {p.type.value}} ELSE {})
            \cup {WithKey(j, p.name, b) : b \in {b \in BadEnum(p.type) : ~Valid(b, p.type)}}
            \cup (IF p.type.kind = "base" /\ p.type.name \in {"integer", "uinteger"}
                  THEN {WithKey(j, p.name, IntBoundary(p.type.name)[b]) :
                          b \in {b \in DOMAIN IntBoundary(p.type.name) : ~Valid(IntBoundary(p.type.name)[b], p.type)}}
                  ELSE {})
          : i \in DOMAIN ps }
RECURSIVE Dev(_, _)
Dev(ob, j) ==
    CASE ob.k = "inst" /\ j.k = "obj" ->
            OwnDev(ob, j)
            \cup UNION { { [j EXCEPT !.f[n] = c] : c \in Dev(ob.p[n], j.f[n]) } : n \in DOMAIN ob.p \cap DOMAIN j.f }
      [] ob.k \in {"arr", "tup"} /\ j.k = "arr" ->
            UNION { { [j EXCEPT !.a[i] = c] : c \in Dev(ob.a[i], j.a[i]) } : i \in DOMAIN ob.a \cap DOMAIN j.a }
      [] ob.k = "map" /\ j.k = "obj" ->
            UNION { { [j EXCEPT !.f[key] = c] : c \in Dev(ob.f[key], j.f[key]) } : key \in DOMAIN ob.f \cap DOMAIN j.f }
      [] OTHER -> {}
NestedDeviation ==
    /\ CanDeviate /\ svObj.k = "inst"
    /\ \E n \in DOMAIN svObj.p \cap DOMAIN svW.f :
          \E c \in Dev(svObj.p[n], svW.f[n]) :
             LET w2 == [svW EXCEPT !.f[n] = c] IN
             /\ ~Valid(w2, RootType(svRoot))
             /\ svW' = w2
             /\ svVar' = PropV("nested", n)
    /\ UNCHANGED svObj
    /\ Same

(***************************************************************************)
(* Size.  Refine never builds an array of more than two elements.  A       *)
(* `long` variant names an array of the value (by its path) that has at    *)
(* least two elements whose first and last differ; the harness puts LongPad *)
(* more copies of the first element in front of it (on the object and on   *)
(* the wire alike) - the value stays valid, and whatever told the elements *)
(* apart now sits behind a long uniform prefix.  Judged like a plain value. *)
(***************************************************************************)
RECURSIVE LongPaths(_)
LongPaths(o) ==
    CASE o.k = "inst" -> UNION { { <<n>> \o q : q \in LongPaths(o.p[n]) } : n \in DOMAIN o.p }
      [] o.k \in {"arr", "tup"} ->
            (IF o.k = "arr" /\ Len(o.a) >= 2 /\ ~OEq(o.a[1], o.a[Len(o.a)]) THEN {<<>>} ELSE {})
            \cup UNION { { <<ToString(i)>> \o q : q \in LongPaths(o.a[i]) } : i \in DOMAIN o.a }
      \* a map with an entry: the harness adds LongPad entries under fresh keys, each a copy of an existing value
      [] o.k = "map" -> (IF DOMAIN o.f # {} THEN {<<>>} ELSE {})
                        \cup UNION { { <<key>> \o q : q \in LongPaths(o.f[key]) } : key \in DOMAIN o.f }
      [] OTHER -> {}
LongPrefix ==
    /\ svVar.vk = "none" /\ svDepth < KL
    /\ \E path \in LongPaths(svObj) : svVar' = [vk |-> "long", name |-> "", path |-> path]
    /\ UNCHANGED <<svObj, svW>>
    /\ Same

\* Depth.  A property of the root that holds (directly or as the one element of an array) an instance of the root's own
\* class: the harness nests the value into itself DeepPad times along that property - recursive structures
\* (SelectionRange.parent, DocumentSymbol.children) far deeper than Refine goes.  Judged like a plain value.
SameClass(a, b) == a.k = "inst" /\ b.k = "inst" /\ a.cls = b.cls
Deepen ==
    /\ svVar.vk = "none" /\ svDepth < KL /\ svObj.k = "inst"
    /\ \E n \in DOMAIN svObj.p :
          /\ \/ SameClass(svObj.p[n], svObj)
             \/ (svObj.p[n].k = "arr" /\ Len(svObj.p[n].a) = 1 /\ SameClass(svObj.p[n].a[1], svObj))
          /\ svVar' = [vk |-> "deepen", name |-> n, path |-> <<>>]
    /\ UNCHANGED <<svObj, svW>>
    /\ Same

DropSpecial ==
    /\ CanVary
    /\ \E i \in DOMAIN TopProps(svRoot) : LET p == TopProps(svRoot)[i] IN
          /\ Special(p) /\ p.name \in DOMAIN svW.f
          /\ svW' = WithoutKey(svW, p.name)
          /\ svVar' = PropV("dropspecial", p.name)
    /\ UNCHANGED svObj
    /\ Same

AddUnknown ==
    /\ CanVary
    /\ \E pl \in DOMAIN UnkAlpha : \E j2 \in Unk(svObj, svW, UnkAlpha[pl]) :
          /\ svW' = j2
          /\ svVar' = [vk |-> "unk", name |-> UnkKey]
    /\ UNCHANGED svObj
    /\ Same

AddUnknownBelowUnion ==
    /\ svVar.vk = "none" /\ svDepth < KU /\ svDepth >= KV
    /\ \E pl \in DOMAIN UnkPayloads : \E j2 \in UnkU(svObj, svW, UnkPayloads[pl]) :
          /\ svW' = j2
          /\ svVar' = [vk |-> "unk", name |-> UnkKey]
    /\ UNCHANGED svObj
    /\ Same

AddNearMissKey ==
    /\ CanVary
    /\ \E j2 \in NearMiss(svObj, svW, JInt(1)) :
          /\ svW' = j2
          /\ svVar' = [vk |-> "unk", name |-> "near-miss"]
    /\ UNCHANGED svObj
    /\ Same

Vary == Deepen \/ LongPrefix \/ NestedDeviation \/ AddNearMissKey \/ AddUnknownBelowUnion \/ DropRequired \/ IntValue \/ BadEnumValue \/ OtherLiteral \/ DropSpecial \/ AddUnknown
Next == Refine \/ Vary
Spec == Init /\ [][Next]_vars

View == <<svRoot, svObj, svW, svVar>>

(***************************************************************************)
(* Spec-level invariants (self-consistency and non-vacuity; no code).      *)
(***************************************************************************)
Plain == svVar.vk = "none"
\* every generated value is an instance of its root and its wire form is metamodel-valid
GenShape == Plain => Shape(svObj, RootType(svRoot))
GenValid == Plain => Valid(svW, RootType(svRoot))
\* ... and strictly complete: every non-optional metamodel property is present in the normal form
GenStrict == Plain => StrictPresent(svW, RootType(svRoot))
\* the normal form re-read under the intended reading explains itself (C01 is satisfiable here)
NormalIdem == Plain => RT(svW, svW, RootType(svRoot)) /\ Lossless(svW, svW)
\* every deviation really is invalid; dropped specials and unknown keys stay valid
DeviationIsInvalid == svVar.vk \in {"dropreq", "enum", "lit", "nested"} => ~Valid(svW, RootType(svRoot))
TolerantStaysValid == svVar.vk \in {"dropspecial", "unk"} => Valid(svW, RootType(svRoot))

\* printing: one JSON line per distinct state (worker-safe: a single PrintT of one string)
EmitState == IF Emit THEN PrintT("@S " \o ToJson([root |-> svRoot, o |-> svObj, w |-> svW, var |-> svVar, d |-> svDepth, fr |-> IF svVar.vk = "none" THEN svFrom ELSE NoFrom,
                                                  bw |-> IF svVar.vk = "unk" THEN Wire(svObj) ELSE JNull]))
             ELSE TRUE
=============================================================================
