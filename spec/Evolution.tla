------------------------------ MODULE Evolution ------------------------------
(***************************************************************************)
(* State machine E (C06): the metamodel itself evolves.  A behaviour is an *)
(* edit script; its actions are the edit kinds C06 lists and nothing else: *)
(*   AddStructure   AddProperty (base / reference / array / map / tuple /  *)
(*   null-admitting / anonymous literal as property type, array element or *)
(*   union member; plain and Python-keyword names)   AddExtends  AddMixin  *)
(*   AddEnum (closed)   AddEnumValue   AddRequest / AddNotification (with  *)
(*   or without typeName)   Mark (proposed / deprecated / since)           *)
(*   RemoveOptionalProperty      and the identity (the empty script).      *)
(* Every action has the precondition that keeps the result schema-valid    *)
(* and inside the generator's input discipline (fresh names, resolving     *)
(* references, acyclic inheritance, only optional properties removed).     *)
(*                                                                          *)
(* Generation mode prints every script up to MaxLen.  The harness applies  *)
(* a script to generator/lsp.json; trace mode then checks, edit by edit,   *)
(* that the evolved document is the base document with exactly that edit   *)
(* applied (effect and frame), so the harness's edit application is        *)
(* validated by TLC before the four generators are run on the result.      *)
(***************************************************************************)
EXTENDS LspValue

CONSTANTS MaxLen,      \* generation: script length bound
          Profile      \* "quick": a covering selection of single edits; "thorough": everything up to MaxLen

NewS == "VerifNewStruct"
NewS2 == "VerifNewStruct2"      \* a second new structure, so that new structures can extend each other (chains of 4 and more)
NewE == "VerifNewKind"
B(n) == [kind |-> "base", name |-> n]
R(n) == [kind |-> "reference", name |-> n]
LitProps == << [name |-> "first", type |-> B("string")], [name |-> "second", type |-> B("uinteger"), optional |-> TRUE] >>
LitT2 == [kind |-> "literal", value |-> [properties |-> LitProps]]

\* the property types the statement lists
TyPool == [ string |-> B("string"), integer |-> B("integer"), uinteger |-> B("uinteger"), boolean |-> B("boolean"),
            decimal |-> B("decimal"), uri |-> B("DocumentUri"),
            refStruct |-> R("Position"), refEnum |-> R("MarkupKind"), refOpenEnum |-> R("CodeActionKind"), refAlias |-> R("LSPAny"),
            arrayBase |-> [kind |-> "array", element |-> B("string")],
            arrayRef |-> [kind |-> "array", element |-> R("Range")],
            arrayLiteral |-> [kind |-> "array", element |-> LitT2],
            mapRef |-> [kind |-> "map", key |-> B("string"), value |-> R("Range")],
            tuple |-> [kind |-> "tuple", items |-> <<B("uinteger"), B("uinteger")>>],
            orNull |-> OrT(<<R("Range"), NullT>>),
            orBaseNull |-> OrT(<<B("integer"), NullT>>),
            literal |-> LitT2,
            \* the same shape again, but with its first property marked proposed (two literals that differ only in a mark)
            literalProposed |-> [kind |-> "literal", value |-> [properties |-> << [name |-> "first", type |-> B("string"), proposed |-> TRUE], LitProps[2] >>]],
            orLiteralNull |-> OrT(<<LitT2, NullT>>) ]
TyNames == DOMAIN TyPool
\* "@self": the property is named like the structure it is added to (as Command.command is)
PropNames == {"verifProp", "from", "class", "import", "global", "@self"}
\* representative existing declarations: a leaf, a base with dependants, Position, a union
\* alternative, a params type of an envelope
Targets == {"Color", "TextDocumentPositionParams", "Position", "MarkedStringWithLanguage", "HoverParams"}
\* "notProposed": the mark written out as `"proposed": false` (the schema: "if omitted ... final" - so is false)
Marks == {"proposed", "notProposed", "deprecated", "since"}
\* what a textual mark (deprecated, since) says: one line; several lines; several lines broken Windows-style; text with the
\* characters that end a comment or a string literal in one of the target languages
MarkTexts == {"plain", "multiline", "crlf", "quotes"}

\* "infix": a typeName that contains the word Request (Notification) also BEFORE its final suffix
TypedKinds == {"none", "suffixed", "plain", "infix"}
Edits ==
    {[k |-> "AddStructure", name |-> n] : n \in {NewS, NewS2}}
    \cup {[k |-> "AddProperty", target |-> t, name |-> n, ty |-> ty, optional |-> o] :
            t \in Targets \cup {NewS}, n \in PropNames, ty \in TyNames, o \in BOOLEAN}
    \cup {[k |-> "AddExtends", target |-> NewS, parent |-> p] :
            p \in {"Position", "WorkDoneProgressParams", "HoverParams", "HoverRegistrationOptions", "VersionedTextDocumentIdentifier", "SignatureHelp"}}
    \* a new structure RE-DECLARES a property it inherits (as CreateFile re-declares kind): the nearest declaration wins
    \cup {[k |-> "OverrideProperty", target |-> NewS, name |-> n, ty |-> ty, optional |-> o] :
            n \in {"version", "activeParameter"}, ty \in {"uinteger", "integer"}, o \in BOOLEAN}
    \cup {[k |-> "AddExtends", target |-> NewS2, parent |-> NewS]}
    \cup {[k |-> "AddMixin", target |-> NewS, parent |-> p] : p \in {"PartialResultParams", "WorkDoneProgressParams", "HoverOptions"}}   \* HoverOptions has a mixin of its own
    \cup {[k |-> "AddEnum", name |-> NewE, base |-> b] : b \in {"string", "uinteger"}}
    \cup {[k |-> "AddEnumValue", target |-> e] : e \in {"MarkupKind", "SymbolKind", NewE}}
    \* typed: no typeName / a typeName ending in Request (Notification) as all committed ones do / any other typeName
    \cup {[k |-> "AddRequest", typed |-> ty, params |-> p, result |-> r] :
            ty \in TypedKinds, p \in {"none", "ref"}, r \in {"ref", "orNull", "null", "enumArray"}}   \* enumArray: a closed enum reached through containers only
    \cup {[k |-> "AddNotification", typed |-> ty, params |-> p] : ty \in TypedKinds, p \in {"none", "ref"}}
    \cup {[k |-> "Mark", on |-> w, mark |-> m, text |-> tx] :
            \* soleEnumValue: the only value of a closed enumeration that has exactly one
            w \in {"structure", "property", "enumValue", "soleEnumValue", "request"}, m \in Marks, tx \in MarkTexts}
    \cup {[k |-> "RemoveOptionalProperty", target |-> t] : t \in {"Hover", "CompletionItem", "Diagnostic"}}

VARIABLES svScript
ScriptHas(kind) == \E i \in DOMAIN svScript : svScript[i].k = kind
AddedProps(t) == {svScript[i].name : i \in {i \in DOMAIN svScript : svScript[i].k = "AddProperty" /\ svScript[i].target = t}}
ParentsAdded == {svScript[i].parent : i \in {i \in DOMAIN svScript : svScript[i].k \in {"AddExtends", "AddMixin"}}}
RECURSIVE AllFlatNames(_)
FlatNames(s) == {FlatM[s][i].name : i \in DOMAIN FlatM[s]}
AllFlatNames(S) == UNION {FlatNames(s) : s \in S}
\* structures that inherit from t (so a new property of t must not clash with theirs)
Heirs(t) == {s \in SName : t \in Ancestors(s)}

(***************************************************************************)
(* Well-foundedness.  A structure that must (through required properties   *)
(* of reference / tuple type) contain an instance of itself has no finite  *)
(* value at all; such a metamodel describes nothing and is outside every   *)
(* generator's input discipline.  MustContain(t): the structures every     *)
(* value of type t contains an instance of (arrays and maps may be empty,  *)
(* a union is taken to offer an escape).                                    *)
(***************************************************************************)
RECURSIVE MustContain(_)
MustContain(t) == CASE t.kind = "reference" -> IF t.name \in SName THEN {t.name} ELSE {}
                    [] t.kind = "tuple" -> UNION {MustContain(t.items[i]) : i \in DOMAIN t.items}
                    [] OTHER -> {}
MustOf(s) == UNION {MustContain(FlatM[s][i].type) : i \in {i \in DOMAIN FlatM[s] : Required(FlatM[s][i])}}
MustStep(S) == S \cup UNION {MustOf(s) : s \in S \cap SName}
RECURSIVE MustClosure(_)
MustClosure(S) == LET S2 == MustStep(S) IN IF S2 = S THEN S ELSE MustClosure(S2)
\* a new required property of type ty on target closes a cycle of required containment
ClosesCycle(target, ty) == target \in MustClosure(MustContain(ty))

Pre(e) ==
    CASE e.k = "AddStructure" -> /\ e.name \notin SName \cup EName \cup AName
                                 /\ ~\E i \in DOMAIN svScript : svScript[i].k = "AddStructure" /\ svScript[i].name = e.name
                                 /\ (e.name = NewS2 => ScriptHas("AddStructure"))
      [] e.k = "AddProperty" ->
            /\ (e.target = NewS => ScriptHas("AddStructure")) /\ (e.target # NewS => e.target \in SName)
            /\ e.name \notin AddedProps(e.target)
            /\ (e.target \in SName => e.name \notin FlatNames(e.target) \cup AllFlatNames(Heirs(e.target)))
            /\ (e.target = NewS => e.name \notin AllFlatNames(ParentsAdded \cap SName))
            /\ (~e.optional => ~ClosesCycle(e.target, TyPool[e.ty]))
            \* a required property cannot be added to a structure other declarations' minimal values rely on
            \* without changing every producer: the generator has no opinion, so both are allowed
      [] e.k = "OverrideProperty" ->
            /\ \E i \in DOMAIN svScript : svScript[i].k = "AddStructure" /\ svScript[i].name = e.target
            /\ e.name \in AllFlatNames(ParentsAdded \cap SName) /\ e.name \notin AddedProps(e.target)
            /\ ~\E i \in DOMAIN svScript : svScript[i].k = "OverrideProperty"
      [] e.k \in {"AddExtends", "AddMixin"} ->
            /\ \E i \in DOMAIN svScript : svScript[i].k = "AddStructure" /\ svScript[i].name = e.target
            /\ (e.parent \in SName \/ (e.parent = NewS /\ e.target = NewS2)) /\ e.parent \notin ParentsAdded
            /\ FlatNames(e.parent) \cap (AddedProps(NewS) \cup AllFlatNames(ParentsAdded \cap SName)) = {}
      [] e.k = "AddEnum" -> e.name \notin SName \cup EName \cup AName /\ ~ScriptHas("AddEnum")
      [] e.k = "AddEnumValue" -> (e.target = NewE => ScriptHas("AddEnum")) /\ (e.target # NewE => e.target \in EName /\ ~OpenMM(e.target))
                                 /\ ~\E i \in DOMAIN svScript : svScript[i].k = e.k /\ svScript[i].target = e.target
      [] e.k \in {"AddRequest", "AddNotification"} -> ~\E i \in DOMAIN svScript : svScript[i].k = e.k
      [] e.k = "Mark" -> ~\E i \in DOMAIN svScript : svScript[i].k = "Mark"
      [] e.k = "RemoveOptionalProperty" -> ~ScriptHas("RemoveOptionalProperty")
      [] OTHER -> FALSE

\* the covering selection of the quick profile
QuickOK(e) ==
    CASE e.k = "AddProperty" ->
            \/ e.target = "Color" /\ e.name = "verifProp" /\ e.optional = (e.ty \in {"string", "refStruct", "arrayLiteral", "literal", "tuple"})
               /\ e.ty \in {"string", "integer", "refStruct", "refEnum", "refOpenEnum", "arrayRef", "arrayLiteral", "mapRef", "tuple",
                             "orNull", "literal", "orLiteralNull"}
            \/ e.target = "Color" /\ ((e.name = "from" /\ e.ty = "string" /\ e.optional) \/ (e.name = "class" /\ e.ty = "orNull" /\ ~e.optional)
                                     \/ (e.name = "@self" /\ e.ty = "string" /\ ~e.optional))
            \/ e.target \in {"Position", "TextDocumentPositionParams", "MarkedStringWithLanguage", "HoverParams"}
               /\ e.name = "verifProp" /\ e.ty = "orNull" /\ e.optional
      [] e.k = "AddRequest" -> (e.typed = "suffixed" /\ e.params = "ref" /\ e.result = "orNull") \/ (e.typed = "none" /\ e.params = "none" /\ e.result = "null")
                               \/ (e.typed = "suffixed" /\ e.params = "none" /\ e.result = "ref")
                               \/ (e.typed = "suffixed" /\ e.params = "ref" /\ e.result = "enumArray")
                               \/ (e.typed = "plain" /\ e.params = "ref" /\ e.result = "ref")
                               \/ (e.typed = "infix" /\ e.params = "ref" /\ e.result = "orNull")
      [] e.k = "AddNotification" -> (e.typed = "suffixed" /\ e.params = "ref") \/ (e.typed = "none" /\ e.params = "none")
                                    \/ (e.typed = "plain" /\ e.params = "ref")
                                    \/ (e.typed = "infix" /\ e.params = "none")
      [] e.k = "Mark" -> \/ (e.mark = "proposed" /\ e.on # "request" /\ e.text = "plain")
                         \/ (e.on = "soleEnumValue" /\ e.mark \in {"proposed", "deprecated"} /\ e.text = "plain")
                         \/ (e.mark = "notProposed" /\ e.text = "plain")
                         \/ (e.on = "structure" /\ e.mark = "since" /\ e.text \in {"plain", "crlf"})
                         \/ (e.on = "property" /\ e.mark = "deprecated" /\ e.text \in {"multiline", "quotes"})
                         \/ (e.on = "property" /\ e.mark = "since" /\ e.text \in {"crlf", "quotes"})
                         \/ (e.on = "enumValue" /\ e.mark = "since" /\ e.text \in {"crlf", "quotes"})
                         \/ (e.on = "enumValue" /\ e.mark = "deprecated" /\ e.text = "quotes")
      [] e.k = "RemoveOptionalProperty" -> e.target # "Diagnostic"
      [] OTHER -> TRUE

VARIABLE svDone
EInit == svScript = <<>>
ENext == /\ Len(svScript) < MaxLen
         /\ \E e \in Edits : /\ Pre(e)
                             /\ (Profile = "quick" => QuickOK(e))
                             /\ svScript' = Append(svScript, e)
\* structural edits that need a predecessor (a property of the new structure, a value of the new enum)
\* only appear at length >= 2; every printed script satisfies all preconditions
GInit == EInit /\ svDone = FALSE /\ PrintT("@T " \o ToJson(TyPool))
GNext == ENext /\ UNCHANGED svDone
EmitScript == PrintT("@E " \o ToJson(svScript))

(***************************************************************************)
(* Trace mode: Base and Evolved are the tagged documents; Script is the     *)
(* edit script with the concrete JSON each edit inserted (ins).            *)
(***************************************************************************)
Doc == JsonDeserialize(IOEnv.EVO_TRACE)
Base == Doc.base
Evo == Doc.evolved
Script == Doc.script

ListNames(d, l) == {d.f[l].a[i].f.name.s : i \in DOMAIN d.f[l].a}
Decl(d, l, n) == d.f[l].a[CHOOSE i \in DOMAIN d.f[l].a : d.f[l].a[i].f.name.s = n]
Lists5 == {"structures", "enumerations", "typeAliases"}
Touched(l) == {Script[i].touch.s : i \in {i \in DOMAIN Script : Script[i].list.s = l}}

\* frame: every declaration no edit names is unchanged and in place; nothing vanished
FrameOK == /\ \A l \in Lists5 :
                /\ ListNames(Base, l) \subseteq ListNames(Evo, l)
                /\ \A n \in ListNames(Base, l) \ Touched(l) : JEq(Decl(Base, l, n), Decl(Evo, l, n))
                /\ ListNames(Evo, l) \ ListNames(Base, l) \subseteq Touched(l)
           /\ Len(Evo.f.requests.a) - Len(Base.f.requests.a) = Cardinality({i \in DOMAIN Script : Script[i].k.s = "AddRequest"})
           /\ Len(Evo.f.notifications.a) - Len(Base.f.notifications.a) = Cardinality({i \in DOMAIN Script : Script[i].k.s = "AddNotification"})
           /\ \A i \in DOMAIN Base.f.notifications.a : JEq(Base.f.notifications.a[i], Evo.f.notifications.a[i])
           /\ \A i \in DOMAIN Base.f.requests.a :
                 i \in {Script[k].index.i : k \in {k \in DOMAIN Script : Script[k].k.s = "Mark" /\ Script[k].list.s = "requests"}}
                 \/ JEq(Base.f.requests.a[i], Evo.f.requests.a[i])

HasPropNamed(s, n) == \E i \in DOMAIN s.f.properties.a : s.f.properties.a[i].f.name.s = n
EffectOK(e) ==
    CASE e.k.s = "AddStructure" -> e.touch.s \notin ListNames(Base, "structures") /\ e.touch.s \in ListNames(Evo, "structures")
      [] e.k.s \in {"AddProperty", "OverrideProperty"} ->
            LET s == Decl(Evo, "structures", e.touch.s) IN
            \E i \in DOMAIN s.f.properties.a : JEq(s.f.properties.a[i], e.ins)
      [] e.k.s \in {"AddExtends", "AddMixin"} ->
            LET s == Decl(Evo, "structures", e.touch.s)
                key == IF e.k.s = "AddExtends" THEN "extends" ELSE "mixins" IN
            key \in DOMAIN s.f /\ \E i \in DOMAIN s.f[key].a : JEq(s.f[key].a[i], e.ins)
      [] e.k.s = "AddEnum" -> e.touch.s \notin ListNames(Base, "enumerations") /\ e.touch.s \in ListNames(Evo, "enumerations")
      [] e.k.s = "AddEnumValue" ->
            LET en == Decl(Evo, "enumerations", e.touch.s) IN \E i \in DOMAIN en.f.values.a : JEq(en.f.values.a[i], e.ins)
      [] e.k.s = "AddRequest" -> \E i \in DOMAIN Evo.f.requests.a : JEq(Evo.f.requests.a[i], e.ins)
      [] e.k.s = "AddNotification" -> \E i \in DOMAIN Evo.f.notifications.a : JEq(Evo.f.notifications.a[i], e.ins)
      [] e.k.s = "RemoveOptionalProperty" ->
            LET b == Decl(Base, "structures", e.touch.s)  s == Decl(Evo, "structures", e.touch.s) IN
            /\ HasPropNamed(b, e.removed.s) /\ ~HasPropNamed(s, e.removed.s)
            /\ \E i \in DOMAIN b.f.properties.a : b.f.properties.a[i].f.name.s = e.removed.s
                                                  /\ "optional" \in DOMAIN b.f.properties.a[i].f /\ b.f.properties.a[i].f.optional.b
            /\ Len(s.f.properties.a) = Len(b.f.properties.a) - 1
      [] e.k.s = "Mark" -> TRUE          \* annotations: any placement is schema-valid; the frame bounds where
      [] OTHER -> FALSE

TInit == svDone = FALSE /\ svScript = <<>>
TNext == /\ ~svDone
         /\ IF FrameOK THEN TRUE ELSE PrintT("@F " \o ToJson([c |-> "EV_frame", i |-> 0]))
         /\ \A i \in DOMAIN Script : IF EffectOK(Script[i]) THEN TRUE ELSE PrintT("@F " \o ToJson([c |-> "EV_effect", i |-> i]))
         /\ PrintT("@DONE")
         /\ svDone' = TRUE /\ UNCHANGED svScript
=============================================================================
