------------------------------- MODULE PyImage -------------------------------
(***************************************************************************)
(* The image the generated Python package must be of the metamodel         *)
(* (C04, C09, static parts of C10 and C13), computed from MM, and its      *)
(* comparison - in both directions - with the image introspected from the  *)
(* real module (harness/introspect.py: attrs.fields, enum members, module  *)
(* attributes, METHOD_TO_TYPES, ALL_TYPES_MAP, message_direction).         *)
(*                                                                          *)
(* Type terms:  [t |-> "str"|"int"|"float"|"bool"|"none"|"any"|"object"]   *)
(*   [t |-> "cls"|"fwd", n |-> name]   [t |-> "seq"|"dict"|"tuple"|"union", *)
(*   a |-> <<terms>>]   [t |-> "literal", v |-> <<strings>>]                *)
(* Unions are compared as sets after flattening (what typing.Union does).  *)
(***************************************************************************)
EXTENDS LspMeta

Img == JsonDeserialize(IOEnv.PY_IMAGE)
Norm == Img.norm
Cls == Img.classes
En == Img.enums
Al == Img.aliases
Mt == Img.methods

T(s) == [t |-> s]
TCls(n) == [t |-> "cls", n |-> n]
TUnion(xs) == [t |-> "union", a |-> xs]

RECURSIVE PyAnn(_)
PyAnn(t) ==
    CASE t.kind = "base" ->
            (CASE t.name \in {"string", "DocumentUri", "URI", "RegExp"} -> T("str")
               [] t.name \in {"integer", "uinteger"} -> T("int")
               [] t.name = "decimal" -> T("float")
               [] t.name = "boolean" -> T("bool")
               [] t.name = "null" -> T("none")
               [] OTHER -> T("unknown-base"))
      [] t.kind = "reference" ->
            IF t.name \in SName THEN TCls(t.name)
            ELSE IF t.name \in EName
                 THEN (IF PyOpen(t.name)
                       THEN TUnion(<<TCls(t.name), T(IF EnumBase(t.name) = "string" THEN "str" ELSE "int")>>)
                       ELSE TCls(t.name))
            ELSE IF t.name = "LSPAny" THEN TUnion(<<T("any"), T("none")>>)
            ELSE IF t.name = "LSPObject" THEN [t |-> "plainclass", n |-> "LSPObject"]
            ELSE IF t.name \in AName THEN PyAnn(ADef[t.name].type)           \* typing aliases are transparent
            ELSE T("unresolved-reference")
      [] t.kind = "array" -> [t |-> "seq", a |-> <<PyAnn(t.element)>>]
      [] t.kind = "map" -> [t |-> "dict", a |-> <<PyAnn(t.key), PyAnn(t.value)>>]
      [] t.kind = "tuple" -> [t |-> "tuple", a |-> [i \in DOMAIN t.items |-> PyAnn(t.items[i])]]
      [] t.kind = "or" -> TUnion([i \in DOMAIN t.items |-> PyAnn(t.items[i])])
      [] t.kind = "literal" -> IF t.value.properties = <<>> THEN T("any") ELSE T("literal-class")
      [] t.kind = "stringLiteral" -> T("str")
      [] OTHER -> T("unsupported")

ExpAnn(p) == IF Optional(p) \/ NullAdm(p) THEN TUnion(<<PyAnn(p.type), T("none")>>) ELSE PyAnn(p.type)

RECURSIVE Members(_), TermEq(_, _)
Members(x) == IF x.t = "union" THEN UNION {Members(x.a[i]) : i \in DOMAIN x.a}
              \* module-level aliases keep unresolved forward references to other aliases
              ELSE IF x.t = "fwd" /\ x.n \in AName THEN Members(PyAnn([kind |-> "reference", name |-> x.n]))
              ELSE {x}
AtomEqStrict(x, y) ==
    /\ (x.t = y.t \/ {x.t, y.t} = {"cls", "fwd"} \/ {x.t, y.t} = {"plainclass", "fwd"} \/ {x.t, y.t} = {"plainclass", "cls"}
        \/ {x.t, y.t} = {"plainclass", "object"})
    /\ CASE x.t \in {"cls", "fwd", "plainclass"} /\ y.t \in {"cls", "fwd", "plainclass"} -> x.n = y.n
         [] x.t \in {"seq", "dict", "tuple"} -> Len(x.a) = Len(y.a) /\ \A i \in DOMAIN x.a : TermEq(x.a[i], y.a[i])
         [] x.t = "literal" -> x.v = y.v
         [] OTHER -> TRUE
\* an anonymous literal class is named by the generator: any class stands for it
AtomEq(x, y) == \/ (x.t = "literal-class" /\ y.t \in {"cls", "fwd", "literal-class"})
                \/ (y.t = "literal-class" /\ x.t \in {"cls", "fwd"})
                \/ (x.t # "literal-class" /\ y.t # "literal-class" /\ AtomEqStrict(x, y))
TermEq(a, b) == LET ma == Members(a)  mb == Members(b) IN
                /\ \A x \in ma : \E y \in mb : AtomEq(x, y)
                /\ \A y \in mb : \E x \in ma : AtomEq(x, y)

\* a literal-class position accepts any class (anonymous literal classes are named by the generator)
TermOK(actual, expected) == TermEq(actual, expected)
                            \/ (expected.t = "literal-class" /\ actual.t \in {"cls", "fwd"})

ExpValidator(p) ==
    IF IsLit(p) THEN [v |-> "in", arg |-> p.type.value, opt |-> FALSE]
    ELSE CASE p.type.name \in {"string", "DocumentUri", "URI"} -> [v |-> "instance_of", arg |-> "str", opt |-> Optional(p)]
           [] p.type.name = "RegExp" -> [v |-> "any", arg |-> "", opt |-> Optional(p)]
           [] p.type.name = "integer" -> [v |-> "integer_validator", arg |-> "", opt |-> Optional(p)]
           [] p.type.name = "uinteger" -> [v |-> "uinteger_validator", arg |-> "", opt |-> Optional(p)]
           [] p.type.name = "boolean" -> [v |-> "instance_of", arg |-> "bool", opt |-> Optional(p)]
           [] p.type.name = "decimal" -> [v |-> "instance_of", arg |-> "float", opt |-> Optional(p)]
           [] OTHER -> [v |-> "none", arg |-> "", opt |-> FALSE]

Fail(c, pos) == [c |-> c, pos |-> pos]

AttrOf(cn, key) == Cls[cn].attrs[CHOOSE i \in DOMAIN Cls[cn].attrs : Cls[cn].attrs[i].n = key]
AttrKeys(cn) == {Cls[cn].attrs[i].n : i \in DOMAIN Cls[cn].attrs}

(***************************************************************************)
(* C04: structures.                                                         *)
(***************************************************************************)
PropFails(cn, p, owner) ==
    LET a == AttrOf(cn, Norm[p.name])
        pos == owner \o "." \o p.name
    IN (IF a.req = Required(p) THEN {} ELSE {Fail("I_required", pos)})
       \cup (IF TermOK(a.ann, ExpAnn(p)) THEN {} ELSE {Fail("I_annotation", pos)})
       \cup (IF p.type.kind = "base" \/ IsLit(p)
             THEN (LET e == ExpValidator(p) IN
                   IF e.v = "any" \/ (a.val.v = e.v /\ a.val.arg = e.arg /\ a.val.opt = e.opt) THEN {}
                   ELSE {Fail("I_validator", pos)})
             ELSE {})
       \cup (IF IsLit(p) THEN (IF a.default = "str:" \o p.type.value THEN {} ELSE {Fail("I_literal_default", pos)})
             ELSE IF ~Required(p) THEN (IF a.default = "none" THEN {} ELSE {Fail("I_default", pos)})
             ELSE {})
       \cup (IF a.special = Special(p) THEN {} ELSE {Fail("I_special", pos)})            \* C10 static table

StructFails(s) ==
    IF s \notin DOMAIN Cls THEN (IF s = "LSPObject" THEN {} ELSE {Fail("I_missing_class", s)})
    ELSE LET want == {Norm[FlatM[s][i].name] : i \in DOMAIN FlatM[s]}
             have == AttrKeys(s)
         IN (IF Cls[s].name_ok THEN {} ELSE {Fail("I_class_name", s)})
            \cup {Fail("I_missing_attribute", s \o "." \o FlatM[s][i].name) : i \in {i \in DOMAIN FlatM[s] : Norm[FlatM[s][i].name] \notin have}}
            \cup {Fail("I_extra_attribute", s \o "." \o k) : k \in have \ want}
            \cup (IF Len(Cls[s].attrs) = Cardinality(have) THEN {} ELSE {Fail("I_duplicate_attribute", s)})
            \cup UNION {PropFails(s, FlatM[s][i], s) : i \in {i \in DOMAIN FlatM[s] : Norm[FlatM[s][i].name] \in have}}

(***************************************************************************)
(* C13 static / C04: enumerations carry exactly the metamodel's values.    *)
(***************************************************************************)
Count(seq, pred(_)) == Cardinality({i \in DOMAIN seq : pred(seq[i])})
EnumFails(e) ==
    IF e \notin DOMAIN En THEN {Fail("I_missing_enum", e)}
    ELSE LET mem == En[e].members
             vals == EDef[e].values
             str == EnumBase(e) = "string"
             MV(i) == IF str THEN mem[i].value.s ELSE mem[i].value.i
             kindOK == \A i \in DOMAIN mem : mem[i].value.k = (IF str THEN "str" ELSE "int")
         IN IF ~kindOK THEN {Fail("I_enum_value_kind", e)}
            ELSE (IF En[e].base = (IF str THEN "str" ELSE "int") THEN {} ELSE {Fail("I_enum_base", e)})
                 \cup {Fail("I_enum_value_missing_or_multiplicity", e \o "." \o vals[i].name) :
                         i \in {i \in DOMAIN vals :
                                  Cardinality({k \in DOMAIN mem : MV(k) = vals[i].value})
                                  # Cardinality({k \in DOMAIN vals : vals[k].value = vals[i].value})}}
                 \cup {Fail("I_enum_value_extra", e \o "." \o mem[k].name) :
                         k \in {k \in DOMAIN mem : \A i \in DOMAIN vals : vals[i].value # MV(k)}}

(***************************************************************************)
(* C04: aliases.                                                            *)
(***************************************************************************)
AliasFails(a) ==
    IF a \notin DOMAIN Al THEN {Fail("I_missing_alias", a)}
    ELSE IF a \in {"LSPAny", "LSPObject"} THEN (IF TermOK(Al[a], PyAnn([kind |-> "reference", name |-> a])) THEN {} ELSE {Fail("I_alias_type", a)})
    ELSE IF TermOK(Al[a], PyAnn(ADef[a].type)) THEN {} ELSE {Fail("I_alias_type", a)}

(***************************************************************************)
(* C09: the method catalogue and the registry.                              *)
(***************************************************************************)
AndOK(cn, items) == /\ cn \in DOMAIN Cls
                    /\ AttrKeys(cn) = {Norm[AndProps(items)[i].name] : i \in DOMAIN AndProps(items)}
FieldOK(actual, d, field) ==
    IF field \notin DOMAIN d THEN actual.t = "absent"
    ELSE IF d[field].kind = "and" THEN actual.t = "cls" /\ AndOK(actual.n, d[field].items)
    ELSE TermOK(actual, PyAnn(d[field]))

\* the class generated for an `and` type images the merged property list like a structure does (C04)
RECURSIVE Dedup(_, _)
Dedup(ps, seen) == IF ps = <<>> THEN <<>>
                   ELSE IF Head(ps).name \in seen THEN Dedup(Tail(ps), seen)
                   ELSE <<Head(ps)>> \o Dedup(Tail(ps), seen \cup {Head(ps).name})
AndClassFails(actual, d, field) ==
    IF field \in DOMAIN d /\ d[field].kind = "and" /\ actual.t = "cls" /\ actual.n \in DOMAIN Cls
    THEN LET ps == Dedup(AndProps(d[field].items), {}) IN
         UNION {PropFails(actual.n, ps[i], actual.n) : i \in {i \in DOMAIN ps : Norm[ps[i].name] \in AttrKeys(actual.n)}}
    ELSE {}

MethodFails(m) ==
    IF m \notin DOMAIN Mt THEN {Fail("M_missing_method", m)}
    ELSE LET e == Mt[m]  d == MsgDef(m) IN
         AndClassFails(e.params, d, "params") \cup AndClassFails(e.regopts, d, "registrationOptions") \cup
         (IF e.req \in DOMAIN Cls /\ e.default_method = m THEN {} ELSE {Fail("M_message_class", m)})
         \cup (IF m \in ReqM THEN (IF e.resp \in DOMAIN Cls THEN {} ELSE {Fail("M_response_class", m)})
               ELSE (IF e.resp = "" THEN {} ELSE {Fail("M_response_class", m)}))
         \cup (IF FieldOK(e.params, d, "params") THEN {} ELSE {Fail("M_params", m)})
         \cup (IF FieldOK(e.regopts, d, "registrationOptions") THEN {} ELSE {Fail("M_registration_options", m)})
         \cup (IF e.direction = d.messageDirection THEN {} ELSE {Fail("M_direction", m)})
         \cup (IF e.consts # <<>> THEN {} ELSE {Fail("M_constant", m)})
         \* envelope special table (C10): method / jsonrpc (/ result) always written, nothing else
         \cup (IF e.req \in DOMAIN Cls
               THEN {Fail("I_special", e.req \o "." \o Cls[e.req].attrs[i].name) :
                       i \in {i \in DOMAIN Cls[e.req].attrs :
                                Cls[e.req].attrs[i].special # (Cls[e.req].attrs[i].n \in {"method", "jsonrpc"})}}
               ELSE {})
         \cup (IF m \in ReqM /\ e.resp \in DOMAIN Cls
               THEN {Fail("I_special", e.resp \o "." \o Cls[e.resp].attrs[i].name) :
                       i \in {i \in DOMAIN Cls[e.resp].attrs :
                                Cls[e.resp].attrs[i].special # (Cls[e.resp].attrs[i].n \in {"result", "jsonrpc"})}}
               ELSE {})

MsgClasses == UNION {{Mt[m].req, Mt[m].resp} : m \in DOMAIN Mt} \ {""}
AuxClasses == {Mt[m].params.n : m \in {m \in DOMAIN Mt : Mt[m].params.t = "cls"}}
              \cup {Mt[m].regopts.n : m \in {m \in DOMAIN Mt : Mt[m].regopts.t = "cls"}}
ExpectedDefined == SName \cup EName \cup MsgClasses \cup AuxClasses
                   \cup {"ResponseError", "ResponseErrorMessage", "MessageDirection", "LSPObject"}
\* classes that an annotation of some class refers to (anonymous literal classes of evolved models)
RECURSIVE Mentioned(_)
Mentioned(x) == IF x.t \in {"cls", "fwd"} THEN {x.n}
                ELSE IF x.t \in {"seq", "dict", "tuple", "union"} THEN UNION {Mentioned(x.a[i]) : i \in DOMAIN x.a}
                ELSE {}
AllMentioned == UNION {UNION {Mentioned(Cls[c].attrs[i].ann) : i \in DOMAIN Cls[c].attrs} : c \in DOMAIN Cls}
                \cup UNION {Mentioned(Al[a]) : a \in DOMAIN Al}

RegistryFails ==
    {Fail("M_extra_method", m) : m \in DOMAIN Mt \ Methods}
    \cup {Fail("M_registry_missing", n) : n \in {n \in (SName \cup EName \cup AName \cup MsgClasses \cup SeqSet(Img.defined)) :
                                                    n \notin DOMAIN Img.registry}}
    \cup {Fail("M_registry_wrong_object", n) : n \in {n \in DOMAIN Img.registry : ~Img.registry[n]}}
    \cup {Fail("M_unresolved_forward_reference", Img.unresolved[i]) : i \in DOMAIN Img.unresolved}
    \cup {Fail("I_extra_definition", n) : n \in {n \in SeqSet(Img.defined) : n \notin ExpectedDefined /\ n \notin AllMentioned}}

Failures == UNION {StructFails(s) : s \in SName}
            \cup UNION {EnumFails(e) : e \in EName}
            \cup UNION {AliasFails(a) : a \in AName}
            \cup UNION {MethodFails(m) : m \in Methods}
            \cup RegistryFails

Obligations == [structures |-> Cardinality(SName), enums |-> Cardinality(EName), aliases |-> Cardinality(AName),
                methods |-> Cardinality(Methods), registry |-> Cardinality(DOMAIN Img.registry),
                properties |-> LET RECURSIVE Sum(_)
                                   Sum(S) == IF S = {} THEN 0 ELSE LET n == CHOOSE n \in S : TRUE IN Len(FlatM[n]) + Sum(S \ {n})
                               IN Sum(SName),
                enum_values |-> LET RECURSIVE Sum(_)
                                    Sum(S) == IF S = {} THEN 0 ELSE LET n == CHOOSE n \in S : TRUE IN Len(EDef[n].values) + Sum(S \ {n})
                                IN Sum(EName)]

VARIABLE svDone
Init == svDone = FALSE
Next == /\ ~svDone
        /\ ModelWellFormed
        /\ \A f \in Failures : PrintT("@F " \o ToJson(f))
        /\ PrintT("@O " \o ToJson(Obligations))
        /\ svDone' = TRUE
=============================================================================
