------------------------- MODULE ConverterInitProof -------------------------
(***************************************************************************)
(* TLAPS proof, for ANY set of threads and ANY KItems / NClasses, that the *)
(* locked design of ConverterInit.tla (the repaired                         *)
(* _hooks._resolve_forward_references) never raises, registers hooks only   *)
(* after every class is resolved, and keeps the critical section exclusive. *)
(* TLC checks the same properties exhaustively for 2 and 3 threads and      *)
(* shows the unlocked design violates NoError; this proof removes the       *)
(* bound on the number of threads.  It is about the design: the binding of  *)
(* the design to the code is the forced-schedule replay of check C19.       *)
(***************************************************************************)
EXTENDS ConverterInitCore, TLAPS

ASSUME LockedDesign == Locked = TRUE
ASSUME FreeIsNoThread == "free" \notin Threads
ASSUME Sizes == KItems \in Nat /\ NClasses \in Nat

PCs == {"start", "acquire", "iter", "resolve", "setflag", "release", "hooks", "done", "dead"}
CS  == {"iter", "resolve", "setflag", "release"}        \* control points at which the thread holds the lock

TypeOK == /\ svFlag \in BOOLEAN
          /\ svVer \in {0, 1}
          /\ svLock \in Threads \cup {"free"}
          /\ svPc \in [Threads -> PCs]
          /\ svSeen \in [Threads -> {0, 1}]
          /\ svIt \in [Threads -> Nat]
          /\ svRes \in [Threads -> Nat]

Inv == /\ TypeOK
       /\ \A t \in Threads : svPc[t] \in CS <=> svLock = t                 \* the lock is held exactly inside CS
       /\ \A t \in Threads : svPc[t] = "iter" => svSeen[t] = svVer          \* the iterating thread saw the current dict
       /\ \A t \in Threads : svPc[t] \in {"release", "hooks", "done"} => svFlag
       /\ \A t \in Threads : svPc[t] # "dead"

MutexPair == \A t, u \in Threads : svPc[t] \in CS /\ svPc[u] \in CS => t = u

LEMMA InitInv == Init => Inv
  BY FreeIsNoThread DEF Init, Inv, TypeOK, PCs, CS

LEMMA StepInv == Inv /\ [Next]_cvars => Inv'
  <1> SUFFICES ASSUME Inv, [Next]_cvars PROVE Inv'
    OBVIOUS
  <1> USE LockedDesign, FreeIsNoThread, Sizes
  <1>1. CASE UNCHANGED cvars
    BY <1>1 DEF Inv, TypeOK, cvars, PCs, CS
  <1>2. ASSUME NEW t \in Threads, Enter(t) PROVE Inv'
    BY <1>2 DEF Enter, Inv, TypeOK, PCs, CS
  <1>3. ASSUME NEW t \in Threads, Acquire(t) PROVE Inv'
    BY <1>3 DEF Acquire, Inv, TypeOK, PCs, CS
  <1>4. ASSUME NEW t \in Threads, IterStep(t) PROVE Inv'
    BY <1>4 DEF IterStep, Inv, TypeOK, PCs, CS
  <1>5. ASSUME NEW t \in Threads, ResolveStep(t) PROVE Inv'
    BY <1>5 DEF ResolveStep, Inv, TypeOK, PCs, CS
  <1>6. ASSUME NEW t \in Threads, SetFlag(t) PROVE Inv'
    BY <1>6 DEF SetFlag, Inv, TypeOK, PCs, CS
  <1>7. ASSUME NEW t \in Threads, Release(t) PROVE Inv'
    BY <1>7 DEF Release, Inv, TypeOK, PCs, CS
  <1>8. ASSUME NEW t \in Threads, Hooks(t) PROVE Inv'
    BY <1>8 DEF Hooks, Inv, TypeOK, PCs, CS
  <1> QED
    BY <1>1, <1>2, <1>3, <1>4, <1>5, <1>6, <1>7, <1>8 DEF Next, Step

THEOREM InvAlways == Spec => []Inv
  <1>1. Init => Inv
    BY InitInv
  <1>2. Inv /\ [Next]_cvars => Inv'
    BY StepInv
  <1> QED
    BY <1>1, <1>2, PTL DEF Spec

THEOREM Safety == Spec => [](NoError /\ HooksOnlyAfterResolved /\ MutexPair)
  <1>1. Inv => NoError /\ HooksOnlyAfterResolved /\ MutexPair
    BY DEF Inv, NoError, HooksOnlyAfterResolved, MutexPair
  <1> QED
    BY <1>1, InvAlways, PTL
=============================================================================
