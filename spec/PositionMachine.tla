--------------------------- MODULE PositionMachine ---------------------------
(***************************************************************************)
(* C20, second part: Position / Range / Location are MUTABLE objects.  The *)
(* statement ("the six operators agree with the lexicographic order of     *)
(* (line, character)", "Range / Location equality is structural", "repr    *)
(* shows the coordinates") speaks about the coordinates the objects HAVE,  *)
(* so it must survive any history of assignments and comparisons.          *)
(*                                                                          *)
(* State: two Position objects (their current coordinates).  Actions:      *)
(*   set(o, f, v)   o.line = v / o.character = v                            *)
(*   cmp(o, p)      the six operators on (o, p) and repr of both            *)
(*   cmpr(w)        Range / Location built ONCE at the start of the run     *)
(*                  from the two objects (they hold references):            *)
(*                  "swap"  Range(p1, p2) == Range(p2, p1)                   *)
(*                  "snap"  Range(p1, p2) == a Range of never-touched       *)
(*                          copies of the initial coordinates               *)
(*                  "loc"   the same through Location (same uri) and        *)
(*                          against another uri                             *)
(* Comparisons are actions of their own because an implementation may      *)
(* remember something when it compares.                                     *)
(*                                                                          *)
(* Generation mode: every history of length MaxLen from every initial      *)
(* state is a state of this spec (the history is part of the state); TLC   *)
(* prints each and the harness replays it on real objects.  Trace mode:    *)
(* TLC replays the recorded actions on its own state and judges every      *)
(* recorded observation against that state.                                 *)
(***************************************************************************)
EXTENDS Naturals, Sequences, FiniteSets, TLC, Json, IOUtils

CONSTANTS MaxLen,     \* generation: length of the histories
          NRuns,      \* trace: number of runs
          NEvents     \* trace: total number of events

Lex(a, b) == a[1] < b[1] \/ (a[1] = b[1] /\ a[2] < b[2])

Objs   == {1, 2}
Vals   == {0, 2}
Inits  == {<< <<1, 1>>, <<1, 1>> >>, << <<0, 2>>, <<2, 0>> >>}
Acts   == {[a |-> "set", o |-> o, f |-> f, v |-> v] : o \in Objs, f \in {"line", "character"}, v \in Vals}
          \cup {[a |-> "cmp", o |-> op[1], p |-> op[2]] : op \in {<<1, 2>>, <<2, 1>>, <<1, 1>>}}
          \cup {[a |-> "cmpr", w |-> w] : w \in {"swap", "snap", "loc"}}

Apply(st, act) == IF act.a # "set" THEN st
                  ELSE [st EXCEPT ![act.o] = IF act.f = "line" THEN <<act.v, @[2]>> ELSE <<@[1], act.v>>]

VARIABLES svObj,    \* current coordinates of the two objects
          svInit,   \* their coordinates at construction
          svHist,   \* generation: the actions so far
          svR, svL, svN      \* trace: run, event within the run, events consumed
vars == <<svObj, svInit, svHist, svR, svL, svN>>

GInit == /\ svInit \in Inits /\ svObj = svInit /\ svHist = <<>>
         /\ svR = 0 /\ svL = 0 /\ svN = 0
GNext == /\ Len(svHist) < MaxLen
         /\ \E act \in Acts : svHist' = Append(svHist, act) /\ svObj' = Apply(svObj, act)
         /\ UNCHANGED <<svInit, svR, svL, svN>>

\* design-level: the coordinates are exactly what the last assignments say (comparisons change nothing)
RECURSIVE Replay(_, _)
Replay(st, h) == IF h = <<>> THEN st ELSE Replay(Apply(st, Head(h)), Tail(h))
StateIsFoldOfHistory == svR = 0 => svObj = Replay(svInit, svHist)
\* design-level: the order the observations are judged against is a strict total order on the reachable coordinates
Trichotomy == LET a == svObj[1]  b == svObj[2] IN
              Cardinality({x \in {"lt", "eq", "gt"} : CASE x = "lt" -> Lex(a, b) [] x = "eq" -> a = b [] x = "gt" -> Lex(b, a)}) = 1
EmitHistory == IF svR = 0 /\ Len(svHist) = MaxLen THEN PrintT("@M " \o ToJson([init |-> svInit, hist |-> svHist])) ELSE TRUE

(***************************************************************************)
(* Trace mode.                                                              *)
(***************************************************************************)
Runs == JsonDeserialize(IOEnv.POSM_TRACE)
B(x) == IF x THEN "T" ELSE "F"
PosRepr(p) == ToString(p[1]) \o ":" \o ToString(p[2])
RngRepr(a, b) == PosRepr(a) \o "-" \o PosRepr(b)

Fails(st, init, ev) ==
    CASE ev.a = "cmp" ->
            LET a == st[ev.o]  b == st[ev.p] IN
            (IF /\ ev.lt = B(Lex(a, b)) /\ ev.gt = B(Lex(b, a))
                /\ ev.le = B(Lex(a, b) \/ a = b) /\ ev.ge = B(Lex(b, a) \/ a = b)
                /\ ev.eq = B(a = b) /\ ev.ne = B(a # b)
             THEN {} ELSE {"P_order"})
            \cup (IF ev.ra = PosRepr(a) /\ ev.rb = PosRepr(b) THEN {} ELSE {"P_repr"})
      [] ev.a = "cmpr" ->
            LET same == CASE ev.w = "swap" -> st[1] = st[2]
                          [] OTHER -> st = init IN
            (IF ev.eq = B(same) /\ ev.ne = B(~same) /\ (ev.w = "loc" => ev.other = "F") THEN {} ELSE {"P_eq"})
            \cup (IF ev.repr = (IF ev.w = "loc" THEN "file:///a:" ELSE "") \o RngRepr(st[1], st[2]) THEN {} ELSE {"P_repr"})
      [] ev.a = "set" -> IF ev.ok THEN {} ELSE {"P_set"}      \* assigning a valid coordinate never fails
      [] OTHER -> {}

TInit == /\ svR = 1 /\ svL = 1 /\ svN = 0 /\ svHist = <<>>
         /\ svInit = Runs[1].init /\ svObj = Runs[1].init
TStep == /\ svR <= NRuns
         /\ LET run == Runs[svR]
                ev == run.events[svL]
                st == Apply(svObj, ev)           \* the spec takes the same step ...
                f == Fails(st, svInit, ev)       \* ... and judges what the implementation showed afterwards
            IN /\ IF f = {} THEN TRUE ELSE PrintT("@F " \o ToJson([run |-> svR, l |-> svL, c |-> f, state |-> st]))
               /\ IF svL < Len(run.events)
                  THEN svL' = svL + 1 /\ svR' = svR /\ svObj' = st /\ svInit' = svInit
                  ELSE /\ svL' = 1 /\ svR' = svR + 1
                       /\ IF svR < NRuns THEN svInit' = Runs[svR + 1].init /\ svObj' = Runs[svR + 1].init
                                         ELSE UNCHANGED <<svInit, svObj>>
         /\ svN' = svN + 1
         /\ TLCSet(1, svN + 1)
         /\ UNCHANGED svHist
AllConsumed == TLCGet(1) = NEvents /\ PrintT("@DONE " \o ToString(TLCGet(1)))
=============================================================================
