------------------------------ MODULE RustImage ------------------------------
(***************************************************************************)
(* C07: the image the generated Rust crate must be of the metamodel,       *)
(* computed from MM, compared with the image extracted from lib.rs         *)
(* (harness/extract_rust.py: items, attributes, fields with parsed type    *)
(* terms [c |-> constructor, a |-> <<arguments>>], serde names).           *)
(***************************************************************************)
EXTENDS LspMeta

Img == JsonDeserialize(IOEnv.RUST_IMAGE)
St == Img.structs
En == Img.enums
Al == Img.aliases

Ty(c) == [c |-> c, a |-> <<>>]
Ty1(c, x) == [c |-> c, a |-> <<x>>]
\* an anonymous literal: the generator names its struct, so the expected term carries the literal's own properties and the
\* struct found at that place is compared member by member (names, types, Option, feature gates)
Lit(t) == [c |-> "(literal)", a |-> <<>>, props |-> t.value.properties]

NonNull(items) == SelectSeq(items, LAMBDA t : ~IsNullT(t))
HasNullItem(t) == t.kind \in {"or", "tuple"} /\ \E i \in DOMAIN t.items : IsNullT(t.items[i])
Proposed(d) == Opt(d, "proposed", FALSE)

IsStrEnum(e) == \A i \in DOMAIN EDef[e].values : EnumBase(e) = "string"
RECURSIVE RustTy(_)
RustTy(t) ==
    CASE t.kind = "base" ->
            (CASE t.name \in {"string", "RegExp"} -> Ty("String")
               [] t.name \in {"DocumentUri", "URI"} -> Ty("Url")
               [] t.name = "decimal" -> Ty("Decimal")
               [] t.name = "integer" -> Ty("i32")
               [] t.name = "uinteger" -> Ty("u32")
               [] t.name = "boolean" -> Ty("bool")
               [] OTHER -> Ty("(null)"))
      [] t.kind = "reference" ->
            IF t.name \in EName /\ OpenMM(t.name)
            THEN Ty1(IF EnumBase(t.name) = "string" THEN "CustomStringEnum" ELSE "CustomIntEnum", Ty(t.name))
            ELSE Ty(t.name)
      [] t.kind = "array" -> Ty1("Vec", RustTy(t.element))
      [] t.kind = "map" -> [c |-> "HashMap", a |-> <<RustTy(t.key), RustTy(t.value)>>]
      [] t.kind = "or" ->
            LET nn == NonNull(t.items) IN
            IF Len(nn) = 1 THEN RustTy(nn[1])
            ELSE [c |-> "OR" \o ToString(Len(nn)), a |-> [i \in DOMAIN nn |-> RustTy(nn[i])]]
      [] t.kind = "tuple" ->
            LET nn == NonNull(t.items) IN
            IF Len(nn) = 1 THEN RustTy(nn[1]) ELSE [c |-> "(tuple)", a |-> [i \in DOMAIN nn |-> RustTy(nn[i])]]
      [] t.kind = "literal" -> IF t.value.properties = <<>> THEN Ty("LSPObject") ELSE Lit(t)
      [] t.kind = "stringLiteral" -> Ty("String")
      [] OTHER -> Ty("(unsupported)")

ExpFieldTy(p) == IF Optional(p) \/ HasNullItem(p.type) THEN Ty1("Option", RustTy(p.type)) ELSE RustTy(p.type)

\* term equality; an anonymous literal matches a struct of the crate that is the image of exactly that literal
Fail(c, pos) == [c |-> c, pos |-> pos]
FieldNamed(s, n) == St[s].fields[CHOOSE i \in DOMAIN St[s].fields : St[s].fields[i].serde_name = n]
FieldNames(s) == {St[s].fields[i].serde_name : i \in DOMAIN St[s].fields}
RECURSIVE TyEq(_, _), LitOK(_, _)
LitOK(sn, props) ==
    /\ FieldNames(sn) = {props[i].name : i \in DOMAIN props}
    /\ \A i \in DOMAIN props :
          LET f == FieldNamed(sn, props[i].name) IN
          /\ TyEq(f.ty, IF Optional(props[i]) \/ HasNullItem(props[i].type) THEN Ty1("Option", RustTy(props[i].type)) ELSE RustTy(props[i].type))
          /\ f.gated = Proposed(props[i])
TyEq(x, e) == IF e.c = "(literal)" THEN x.a = <<>> /\ x.c \in DOMAIN St /\ LitOK(x.c, e.props)
              ELSE x.c = e.c /\ Len(x.a) = Len(e.a) /\ \A i \in DOMAIN x.a : TyEq(x.a[i], e.a[i])

RECURSIVE Names(_)
Names(x) == {x.c} \cup UNION {Names(x.a[i]) : i \in DOMAIN x.a}

StructFails(s) ==
    IF s \notin DOMAIN St THEN {Fail("R_struct_missing", s)}
    ELSE LET want == {FlatM[s][i].name : i \in DOMAIN FlatM[s]} IN
         {Fail("R_field_missing", s \o "." \o n) : n \in want \ FieldNames(s)}
         \cup {Fail("R_field_extra", s \o "." \o n) : n \in FieldNames(s) \ want}
         \cup (IF Len(St[s].fields) = Cardinality(FieldNames(s)) THEN {} ELSE {Fail("R_field_duplicate", s)})
         \cup (IF St[s].derives_serde THEN {} ELSE {Fail("R_no_serde_derive", s)})
         \cup (IF St[s].gated = Proposed(SDef[s]) THEN {} ELSE {Fail("R_gate", s)})
         \cup UNION { LET p == FlatM[s][i]  f == FieldNamed(s, p.name) IN
                      (IF TyEq(f.ty, ExpFieldTy(p)) THEN {} ELSE {Fail("R_field_type", s \o "." \o p.name)})
                      \cup (IF f.gated = Proposed(p) THEN {} ELSE {Fail("R_gate", s \o "." \o p.name)})
                    : i \in {i \in DOMAIN FlatM[s] : FlatM[s][i].name \in FieldNames(s)} }

Arms(e, kind) == IF e \in DOMAIN Img.impls /\ kind \in DOMAIN Img.impls[e] THEN Img.impls[e][kind] ELSE <<>>
EnumFails(e) ==
    IF e \notin DOMAIN En THEN {Fail("R_enum_missing", e)}
    ELSE LET vs == EDef[e].values
             vr == En[e].variants
         IN (IF En[e].gated = Proposed(EDef[e]) THEN {} ELSE {Fail("R_gate", e)})
            \cup (IF Len(vr) = Len(vs) THEN {} ELSE {Fail("R_enum_variant_count", e)})
            \cup (IF EnumBase(e) = "string"
                  THEN {Fail("R_enum_value", e \o "." \o vs[i].name) :
                          i \in {i \in DOMAIN vs : Cardinality({k \in DOMAIN vr : vr[k].rename = vs[i].value})
                                                     # Cardinality({k \in DOMAIN vs : vs[k].value = vs[i].value})}}
                       \cup (IF En[e].derives_serde THEN {} ELSE {Fail("R_no_serde_derive", e)})
                  ELSE LET ser == Arms(e, "ser")  de == Arms(e, "de") IN
                       {Fail("R_enum_value", e \o "." \o vs[i].name) :
                          i \in {i \in DOMAIN vs : ~(\E k \in DOMAIN ser : ser[k][2] = vs[i].value)
                                                   \/ ~(\E k \in DOMAIN de : de[k][2] = vs[i].value)}}
                       \cup {Fail("R_enum_value_extra", e) : k \in {k \in DOMAIN ser : \A i \in DOMAIN vs : vs[i].value # ser[k][2]}}
                       \cup {Fail("R_enum_value_extra", e) : k \in {k \in DOMAIN de : \A i \in DOMAIN vs : vs[i].value # de[k][2]}}
                       \* serialize and deserialize agree variant by variant
                       \cup {Fail("R_enum_ser_de_mismatch", e \o "." \o ser[k][1]) :
                               k \in {k \in DOMAIN ser : ~(\E j \in DOMAIN de : de[j][1] = ser[k][1] /\ de[j][2] = ser[k][2])}})
            \cup {Fail("R_gate", e \o "." \o vs[i].name) :
                    i \in {i \in DOMAIN vs : i \in DOMAIN vr /\ vr[i].gated # Proposed(vs[i])}}

AliasFails(a) ==
    LET t == ADef[a].type IN
    IF a \in {"LSPAny", "LSPObject", "LSPArray"}
    THEN (IF a \in DOMAIN En \/ a \in DOMAIN Al THEN {} ELSE {Fail("R_alias_missing", a)})
    ELSE IF t.kind = "or"
    THEN (IF a \notin DOMAIN En THEN {Fail("R_alias_missing", a)}
          ELSE LET nn == NonNull(t.items)  vr == En[a].variants IN
               (IF En[a].untagged THEN {} ELSE {Fail("R_alias_not_untagged", a)})
               \cup (IF Len(vr) = Len(nn) THEN {} ELSE {Fail("R_alias_variant_count", a)})
               \cup {Fail("R_alias_variant_type", a) :
                       i \in {i \in DOMAIN nn : ~\E k \in DOMAIN vr : Len(vr[k].payload) = 1 /\ TyEq(vr[k].payload[1], RustTy(nn[i]))}}
               \cup (IF En[a].gated = Proposed(ADef[a]) THEN {} ELSE {Fail("R_gate", a)}))
    ELSE (IF a \notin DOMAIN Al THEN {Fail("R_alias_missing", a)}
          ELSE (IF TyEq(Al[a].ty, RustTy(t)) THEN {} ELSE {Fail("R_alias_type", a)})
               \cup (IF Al[a].gated = Proposed(ADef[a]) THEN {} ELSE {Fail("R_gate", a)}))

MethodEnumFails(name, methods) ==
    IF name \notin DOMAIN En THEN {Fail("R_method_enum_missing", name)}
    ELSE LET vr == En[name].variants IN
         {Fail("R_method_variant_missing", m) : m \in {m \in methods : ~\E k \in DOMAIN vr : vr[k].rename = m}}
         \cup {Fail("R_method_variant_extra", vr[k].name) : k \in {k \in DOMAIN vr : vr[k].rename \notin methods}}
         \cup (IF Len(vr) = Cardinality(methods) THEN {} ELSE {Fail("R_method_variant_count", name)})

HasField(s, n, c) == \E i \in DOMAIN St[s].fields : St[s].fields[i].serde_name = n /\ (c = "" \/ St[s].fields[i].ty.c = c)
MessageFails(m) ==
    LET d == MsgDef(m)
        isReq == m \in ReqM
        menum == IF isReq THEN "LSPRequestMethods" ELSE "LSPNotificationMethods"
    IN IF "typeName" \notin DOMAIN d THEN {}          \* naming of typeName-less messages is not specified
       ELSE IF d.typeName \notin DOMAIN St THEN {Fail("R_message_struct_missing", m)}
       ELSE LET s == d.typeName IN
            (IF HasField(s, "method", menum) /\ HasField(s, "jsonrpc", "String") /\ HasField(s, "params", "")
                /\ (isReq => HasField(s, "id", "")) THEN {} ELSE {Fail("R_message_fields", m)})
            \cup (IF St[s].gated = Proposed(d) THEN {} ELSE {Fail("R_gate", s)})
            \cup (IF HasParams(d) /\ d.params.kind = "reference" /\ d.params.name \in SName /\ FlatM[d.params.name] # <<>>
                  THEN (IF TyEq(FieldNamed(s, "params").ty, RustTy(d.params)) THEN {} ELSE {Fail("R_message_params_type", m)})
                  ELSE {})
\* the response struct of a request is named by the generator from the request's typeName; that
\* name derivation is observed (Img.resp_name: request struct name -> response struct name)
RespOf(m) == IF "typeName" \in DOMAIN ReqDef[m] /\ ReqDef[m].typeName \in DOMAIN Img.resp_name
             THEN Img.resp_name[ReqDef[m].typeName] ELSE ""
ResponseGateFails ==
    {Fail("R_gate", RespOf(m)) : m \in {m \in ReqM : RespOf(m) \in DOMAIN St /\ St[RespOf(m)].gated # Proposed(ReqDef[m])}}
    \cup {Fail("R_response_struct_missing", m) : m \in {m \in ReqM : RespOf(m) # "" /\ RespOf(m) \notin DOMAIN St}}
ResponseStructs == {s \in DOMAIN St : HasField(s, "jsonrpc", "String") /\ HasField(s, "id", "LSPIdOptional")}
ResponseFails ==
    (IF Cardinality(ResponseStructs) = Cardinality(ReqM) THEN {} ELSE {Fail("R_response_struct_count", "responses")})
    \cup {Fail("R_response_result_type", m) :
            m \in {m \in ReqM : "result" \in DOMAIN ReqDef[m] /\ ~IsNullT(ReqDef[m].result)
                                /\ ~\E s \in ResponseStructs : HasField(s, "result", "")
                                      /\ TyEq(FieldNamed(s, "result").ty, ExpFieldTy([name |-> "result", type |-> ReqDef[m].result]))}}

\* Ungated items that mention a gated item.  Where the metamodel itself lets a non-proposed
\* declaration refer to a proposed one (TextDocumentItem.languageId -> LanguageKind) the crate is
\* gated exactly as C07 says, so this is reported as an observation ("@W"), not as a failure;
\* derived message items are covered by ResponseGateFails.
GatedNames == {s \in DOMAIN St : St[s].gated} \cup {e \in DOMAIN En : En[e].gated} \cup {a \in DOMAIN Al : Al[a].gated}
GateClosureFails ==
    UNION { IF St[s].gated THEN {}
            ELSE {Fail("R_ungated_mentions_gated", s \o "." \o St[s].fields[i].serde_name) :
                    i \in {i \in DOMAIN St[s].fields : ~St[s].fields[i].gated /\ Names(St[s].fields[i].ty) \cap GatedNames # {}}}
          : s \in DOMAIN St }
    \cup UNION { IF En[e].gated THEN {}
                 ELSE {Fail("R_ungated_mentions_gated", e \o "." \o En[e].variants[k].name) :
                         k \in {k \in DOMAIN En[e].variants : ~En[e].variants[k].gated
                                  /\ \E j \in DOMAIN En[e].variants[k].payload : Names(En[e].variants[k].payload[j]) \cap GatedNames # {}}}
               : e \in DOMAIN En }
    \cup {Fail("R_ungated_mentions_gated", a) : a \in {a \in DOMAIN Al : ~Al[a].gated /\ Names(Al[a].ty) \cap GatedNames # {}}}

Failures == UNION {StructFails(s) : s \in SName}
            \cup UNION {EnumFails(e) : e \in EName}
            \cup UNION {AliasFails(a) : a \in AName}
            \cup UNION {MessageFails(m) : m \in Methods}
            \cup MethodEnumFails("LSPRequestMethods", ReqM) \cup MethodEnumFails("LSPNotificationMethods", NotM)
            \cup ResponseFails \cup ResponseGateFails

Obligations == [structs |-> Cardinality(SName), enums |-> Cardinality(EName), aliases |-> Cardinality(AName),
                methods |-> Cardinality(Methods), items_in_crate |-> Cardinality(DOMAIN St) + Cardinality(DOMAIN En) + Cardinality(DOMAIN Al),
                gated_items |-> Cardinality(GatedNames)]

VARIABLE svDone
Init == svDone = FALSE
Next == /\ ~svDone
        /\ ModelWellFormed
        /\ \A f \in Failures : PrintT("@F " \o ToJson(f))
        /\ \A f \in GateClosureFails : PrintT("@W " \o ToJson(f))
        /\ PrintT("@O " \o ToJson(Obligations))
        /\ svDone' = TRUE
=============================================================================
