------------------------------- MODULE LspValue -------------------------------
(***************************************************************************)
(* JSON values in a tagged encoding, metamodel validity, abstract protocol  *)
(* objects (the "intended reading" of a value), their normal-form wire JSON *)
(* and the losslessness relations used by the codec properties.            *)
(*                                                                          *)
(* TLC refuses to compare values of different TLA+ types and orders record *)
(* fields by an internal index, so every node kind keeps its payload under *)
(* its own field name (two nodes of different kinds never have a common    *)
(* field holding values of different types):                               *)
(*                                                                          *)
(* Tagged JSON node:  [k |-> "null"] | [k |-> "bool", b |-> BOOLEAN]        *)
(*   [k |-> "int", i |-> Int]  (|i| <= 10^9)                                *)
(*   [k |-> "big", g |-> <<sign, d1, ..., dn>>]  decimal digits, sign 1/-1  *)
(*   [k |-> "dec", x |-> STRING] canonical repr of a non-integral number    *)
(*   [k |-> "str", s |-> STRING] | [k |-> "arr", a |-> Seq(node)]           *)
(*   [k |-> "obj", f |-> [key -> node]]                                     *)
(* Abstract object: the scalar nodes above plus                            *)
(*   [k |-> "inst", cls |-> class ref, p |-> [property -> object]]          *)
(*   [k |-> "enum", cls |-> enum class ref, e |-> scalar JSON node]         *)
(*   [k |-> "arr"|"tup", a |-> Seq(object)] | [k |-> "map", f |-> [key -> object]] *)
(*   [k |-> "any", j |-> tagged JSON]   (LSPAny / LSPObject / LSPArray payload) *)
(***************************************************************************)
EXTENDS LspMeta

(***************************************************************************)
(* Pseudo type for a class reference, so that envelopes can be roots, and  *)
(* the type of a root [kind, name].                                        *)
(***************************************************************************)
ClsT(c) == [kind |-> "cls", cls |-> c]
RootType(r) == CASE r.kind = "structure" -> [kind |-> "reference", name |-> r.name]
                 [] r.kind = "alias" -> [kind |-> "reference", name |-> r.name]
                 [] r.kind = "request" -> ClsT(ClsReq(r.name))
                 [] r.kind = "response" -> ClsT(ClsResp(r.name))
                 [] r.kind = "notification" -> ClsT(ClsNot(r.name))

JNull == [k |-> "null"]
JStr(s) == [k |-> "str", s |-> s]
JInt(n) == [k |-> "int", i |-> n]
JBool(b) == [k |-> "bool", b |-> b]
JDec(s) == [k |-> "dec", x |-> s]
JBig(sign, ds) == [k |-> "big", g |-> <<sign>> \o ds]
JArr(s) == [k |-> "arr", a |-> s]
JObj(f) == [k |-> "obj", f |-> f]

MaxD    == <<2,1,4,7,4,8,3,6,4,7>>
MinAbsD == <<2,1,4,7,4,8,3,6,4,8>>
MaxP1D  == <<2,1,4,7,4,8,3,6,4,8>>
MinM1D  == <<2,1,4,7,4,8,3,6,4,9>>
Two32D  == <<4,2,9,4,9,6,7,2,9,6>>
Two63D  == <<9,2,2,3,3,7,2,0,3,6,8,5,4,7,7,5,8,0,8>>

RECURSIVE LexLE(_, _)
LexLE(a, b) == IF a = <<>> THEN TRUE
               ELSE IF Head(a) < Head(b) THEN TRUE
               ELSE IF Head(a) > Head(b) THEN FALSE
               ELSE LexLE(Tail(a), Tail(b))
DigitsLE(a, b) == Len(a) < Len(b) \/ (Len(a) = Len(b) /\ LexLE(a, b))

IsIntNode(j) == j.k \in {"int", "big"}
\* range decision for both integer encodings; kind is "integer" or "uinteger"
InRange(kind, j) ==
    IF j.k = "int" THEN (kind = "integer" \/ j.i >= 0)
    ELSE LET sign == j.g[1]  ds == Tail(j.g) IN
         IF sign = 1 THEN DigitsLE(ds, MaxD)
         ELSE kind = "integer" /\ DigitsLE(ds, MinAbsD)

(***************************************************************************)
(* Tag-safe equality.                                                       *)
(***************************************************************************)
RECURSIVE JEq(_, _)
JEq(a, b) == /\ a.k = b.k
             /\ CASE a.k = "null" -> TRUE
                  [] a.k = "bool" -> a.b = b.b
                  [] a.k = "int" -> a.i = b.i
                  [] a.k = "big" -> a.g = b.g
                  [] a.k = "dec" -> a.x = b.x
                  [] a.k = "str" -> a.s = b.s
                  [] a.k = "arr" -> Len(a.a) = Len(b.a) /\ \A i \in DOMAIN a.a : JEq(a.a[i], b.a[i])
                  [] a.k = "obj" -> DOMAIN a.f = DOMAIN b.f /\ \A key \in DOMAIN a.f : JEq(a.f[key], b.f[key])
                  \* [k |-> "deep", n]: an object nested n levels deep, written in short (TLC's JSON reader stops at 255
                  \* levels); it only ever stands where a value is ignored, the harness expands it for the implementation
                  [] a.k = "deep" -> a.n = b.n
                  [] OTHER -> FALSE

StringBases == {"string", "DocumentUri", "URI", "RegExp", "Uri"}

ValidBase(j, b) == CASE b \in StringBases -> j.k = "str"
                     [] b = "integer"  -> IsIntNode(j) /\ InRange("integer", j)
                     [] b = "uinteger" -> IsIntNode(j) /\ InRange("uinteger", j)
                     [] b = "decimal"  -> j.k = "dec" \/ IsIntNode(j)
                     [] b = "boolean"  -> j.k = "bool"
                     [] b = "null"     -> j.k = "null"
                     [] OTHER -> FALSE

\* open is the notion of "supports custom values" in force (metamodel or Python-side)
ValidEnum(j, e, open) ==
    IF EnumBase(e) = "string"
    THEN j.k = "str" /\ (open \/ j.s \in EnumVals(e))
    ELSE /\ IsIntNode(j) /\ InRange(EnumBase(e), j)
         /\ (open \/ (j.k = "int" /\ j.i \in EnumVals(e)))

(***************************************************************************)
(* Validity of tagged JSON against a metamodel type, open world (keys no   *)
(* structure declares are allowed) - the reading C01 / C15 use.  The       *)
(* pseudo type [kind |-> "cls", cls |-> c] refers to a class (envelopes).  *)
(***************************************************************************)
RECURSIVE Valid(_, _)
ValidProps(j, props) ==
    /\ j.k = "obj"
    /\ \A i \in DOMAIN props : LET p == props[i] IN
          IF p.name \in DOMAIN j.f THEN Valid(j.f[p.name], p.type)
          ELSE ~Required(p)                   \* absent Special properties are tolerated (C10 parse rule)
Valid(j, t) ==
    CASE t.kind = "base" -> ValidBase(j, t.name)
      [] t.kind = "cls" -> ValidProps(j, PropsOf(t.cls))
      [] t.kind = "reference" ->
            IF t.name \in SName THEN ValidProps(j, FlatM[t.name])
            ELSE IF t.name \in EName THEN ValidEnum(j, t.name, PyOpen(t.name))
            ELSE IF t.name = "LSPAny" THEN TRUE
            ELSE Valid(j, ADef[t.name].type)
      [] t.kind = "array" -> j.k = "arr" /\ \A i \in DOMAIN j.a : Valid(j.a[i], t.element)
      [] t.kind = "map"   -> j.k = "obj" /\ \A key \in DOMAIN j.f : Valid(j.f[key], t.value)
      [] t.kind = "or"    -> \E i \in DOMAIN t.items : Valid(j, t.items[i])
      [] t.kind = "and"   -> \A i \in DOMAIN t.items : Valid(j, t.items[i])
      [] t.kind = "tuple" -> j.k = "arr" /\ Len(j.a) = Len(t.items)
                             /\ \A i \in DOMAIN t.items : Valid(j.a[i], t.items[i])
      [] t.kind = "literal" -> ValidProps(j, t.value.properties)
      [] t.kind = "stringLiteral" -> j.k = "str" /\ j.s = t.value
      [] OTHER -> FALSE

\* strict presence: every non-optional metamodel property (Special ones included) is there
RECURSIVE StrictPresent(_, _)
StrictPresentProps(j, props) ==
    \A i \in DOMAIN props : LET p == props[i] IN
       IF p.name \in DOMAIN j.f THEN StrictPresent(j.f[p.name], p.type)
       ELSE Optional(p)
StrictPresent(j, t) ==
    CASE t.kind = "cls" -> StrictPresentProps(j, PropsOf(t.cls))
      [] t.kind = "reference" ->
            IF t.name \in SName THEN StrictPresentProps(j, FlatM[t.name])
            ELSE IF t.name \in AName /\ t.name # "LSPAny" THEN StrictPresent(j, ADef[t.name].type)
            ELSE TRUE
      [] t.kind = "array" -> \A i \in DOMAIN j.a : StrictPresent(j.a[i], t.element)
      [] t.kind = "map" -> \A key \in DOMAIN j.f : StrictPresent(j.f[key], t.value)
      [] t.kind = "or" -> \E i \in DOMAIN t.items : Valid(j, t.items[i]) /\ StrictPresent(j, t.items[i])
      [] t.kind = "tuple" -> \A i \in DOMAIN t.items : StrictPresent(j.a[i], t.items[i])
      [] OTHER -> TRUE

\* Closed(j, t): some valid reading of j declares every key that j carries (an "exact instance").
\* Inputs the specification did not generate are only judged when they are exact instances: a key
\* that a SIBLING alternative declares is neither "undeclared" (C15) nor part of the reading (C01).
RECURSIVE Closed(_, _)
ClosedProps(j, props) ==
    /\ j.k = "obj"
    /\ DOMAIN j.f \subseteq {props[i].name : i \in DOMAIN props}
    /\ \A i \in DOMAIN props : props[i].name \in DOMAIN j.f => Closed(j.f[props[i].name], props[i].type)
Closed(j, t) ==
    CASE t.kind = "cls" -> ClosedProps(j, PropsOf(t.cls))
      [] t.kind = "reference" ->
            IF t.name \in SName THEN ClosedProps(j, FlatM[t.name])
            ELSE IF t.name \in AName /\ t.name # "LSPAny" THEN Closed(j, ADef[t.name].type)
            ELSE TRUE
      [] t.kind = "array" -> j.k = "arr" /\ \A i \in DOMAIN j.a : Closed(j.a[i], t.element)
      [] t.kind = "map" -> j.k = "obj" /\ \A key \in DOMAIN j.f : Closed(j.f[key], t.value)
      [] t.kind = "or" -> \E i \in DOMAIN t.items : Valid(j, t.items[i]) /\ Closed(j, t.items[i])
      [] t.kind = "tuple" -> j.k = "arr" /\ Len(j.a) = Len(t.items) /\ \A i \in DOMAIN t.items : Closed(j.a[i], t.items[i])
      [] t.kind = "literal" -> t.value.properties = <<>> \/ ClosedProps(j, t.value.properties)
      [] t.kind = "and" -> ClosedProps(j, AndProps(t.items))
      [] OTHER -> TRUE

(***************************************************************************)
(* Abstract objects.                                                        *)
(***************************************************************************)
ClsE(e) == [kind |-> "enum", name |-> e]
OInst(c, f) == [k |-> "inst", cls |-> c, p |-> f]
OEnum(e, node) == [k |-> "enum", cls |-> ClsE(e), e |-> node]
OAny(j) == [k |-> "any", j |-> j]
OArr(s) == [k |-> "arr", a |-> s]
OTup(s) == [k |-> "tup", a |-> s]
OMap(f) == [k |-> "map", f |-> f]

ScalarKinds == {"null", "bool", "int", "big", "dec", "str"}

RECURSIVE OEq(_, _)
OEq(a, b) == /\ a.k = b.k
             /\ CASE a.k \in ScalarKinds -> JEq(a, b)
                  [] a.k = "enum" -> a.cls = b.cls /\ JEq(a.e, b.e)
                  [] a.k = "any" -> JEq(a.j, b.j)
                  [] a.k = "inst" -> a.cls = b.cls /\ DOMAIN a.p = DOMAIN b.p
                                     /\ \A n \in DOMAIN a.p : OEq(a.p[n], b.p[n])
                  [] a.k \in {"arr", "tup"} -> Len(a.a) = Len(b.a) /\ \A i \in DOMAIN a.a : OEq(a.a[i], b.a[i])
                  [] a.k = "map" -> DOMAIN a.f = DOMAIN b.f /\ \A key \in DOMAIN a.f : OEq(a.f[key], b.f[key])
                  [] OTHER -> FALSE

(***************************************************************************)
(* Wire(o): the exact normal-form JSON of an abstract object (C02 / C10):  *)
(* metamodel names as keys, shapes kept, unset omittable properties left   *)
(* out, Special (null-admitting / literal) and envelope always-written     *)
(* properties always present.                                              *)
(***************************************************************************)
DefaultWire(p) == IF IsLit(p) THEN JStr(p.type.value) ELSE JNull

RECURSIVE Wire(_)
WireInst(o) ==
    LET ps == PropsOf(o.cls)
        names == {ps[i].name : i \in {i \in DOMAIN ps : ps[i].name \in DOMAIN o.p \/ AlwaysWritten(ps[i])}}
    IN JObj([n \in names |->
               IF n \in DOMAIN o.p THEN Wire(o.p[n])
               ELSE DefaultWire(ps[CHOOSE i \in DOMAIN ps : ps[i].name = n])])
Wire(o) == CASE o.k \in ScalarKinds -> o
             [] o.k = "enum" -> o.e
             [] o.k = "inst" -> WireInst(o)
             [] o.k \in {"arr", "tup"} -> JArr([i \in DOMAIN o.a |-> Wire(o.a[i])])
             [] o.k = "map" -> JObj([key \in DOMAIN o.f |-> Wire(o.f[key])])
             [] o.k = "any" -> o.j

(***************************************************************************)
(* Shape(o, t): is the abstract object an instance of (an alternative of)  *)
(* type t?  Decides which union alternative an object is the reading of.   *)
(* Recurses into containers but not into instance properties.              *)
(***************************************************************************)
RECURSIVE Shape(_, _)
ShapeBase(o, b) == CASE b \in StringBases -> o.k = "str"
                     [] b \in {"integer", "uinteger"} -> o.k \in {"int", "big"}
                     [] b = "decimal" -> o.k \in {"dec", "int"}
                     [] b = "boolean" -> o.k = "bool"
                     [] b = "null" -> o.k = "null"
                     [] OTHER -> FALSE
Shape(o, t) ==
    CASE t.kind = "base" -> ShapeBase(o, t.name)
      [] t.kind = "cls" -> o.k = "inst" /\ o.cls = t.cls
      [] t.kind = "reference" ->
            IF t.name \in SName THEN o.k = "inst" /\ o.cls = ClsS(t.name)
            ELSE IF t.name \in EName THEN o.k = "enum" /\ o.cls = ClsE(t.name)
            ELSE IF t.name = "LSPAny" THEN o.k = "any"
            ELSE Shape(o, ADef[t.name].type)
      [] t.kind = "array" -> o.k = "arr" /\ \A i \in DOMAIN o.a : Shape(o.a[i], t.element)
      [] t.kind = "map" -> o.k = "map" /\ \A key \in DOMAIN o.f : Shape(o.f[key], t.value)
      [] t.kind = "or" -> \E i \in DOMAIN t.items : Shape(o, t.items[i])
      [] t.kind = "tuple" -> o.k = "tup" /\ Len(o.a) = Len(t.items)
                             /\ \A i \in DOMAIN t.items : Shape(o.a[i], t.items[i])
      [] t.kind = "literal" -> IF t.value.properties = <<>> THEN o.k = "any" /\ o.j.k = "obj"
                               ELSE o.k = "inst" /\ o.cls.kind = "literal" /\ o.cls = ClsLitOf(t)
      [] t.kind = "stringLiteral" -> o.k = "str" /\ o.s = t.value
      [] t.kind = "and" -> o.k = "inst" /\ o.cls.kind \in {"andParams", "andRegOpts"}
      [] OTHER -> FALSE

(***************************************************************************)
(* Lossless(j, w): type-free structural check - every key of j at every    *)
(* depth is in w with a lossless value; arrays keep their length; scalars  *)
(* are equal.  (Values are generated without null at omittable positions,  *)
(* DESIGN 4.2, so no null ~ absent tolerance is needed here.)              *)
(***************************************************************************)
RECURSIVE Lossless(_, _)
Lossless(j, w) ==
    CASE j.k = "obj" -> /\ w.k = "obj"
                        /\ \A key \in DOMAIN j.f :
                              key \in DOMAIN w.f /\ Lossless(j.f[key], w.f[key])
      [] j.k = "arr" -> /\ w.k = "arr" /\ Len(w.a) = Len(j.a)
                        /\ \A i \in DOMAIN j.a : Lossless(j.a[i], w.a[i])
      [] OTHER -> JEq(w, j)

(***************************************************************************)
(* RT(j, w, t): w is an admissible re-serialisation of j read as t:        *)
(* same declared content, and every key of w absent from j is an           *)
(* always-written property of the class that was read, carrying null or    *)
(* its literal.  At unions: some alternative valid for j explains w.       *)
(***************************************************************************)
RECURSIVE RT(_, _, _)
HasProp(props, key) == \E i \in DOMAIN props : props[i].name = key
PropNamed(props, key) == props[CHOOSE i \in DOMAIN props : props[i].name = key]
RTProps(j, w, props) ==
    /\ j.k = "obj" /\ w.k = "obj"
    /\ \A key \in DOMAIN j.f :
          IF key \in DOMAIN w.f
          THEN HasProp(props, key) /\ RT(j.f[key], w.f[key], PropNamed(props, key).type)
          ELSE ~HasProp(props, key)                       \* undeclared keys are dropped (C15)
    /\ \A key \in DOMAIN w.f \ DOMAIN j.f :
          /\ HasProp(props, key)
          /\ AlwaysWritten(PropNamed(props, key))
          /\ JEq(w.f[key], DefaultWire(PropNamed(props, key)))
RT(j, w, t) ==
    CASE t.kind = "cls" -> RTProps(j, w, PropsOf(t.cls))
      [] t.kind = "reference" ->
            IF t.name \in SName THEN RTProps(j, w, FlatM[t.name])
            ELSE IF t.name \in EName THEN JEq(w, j)
            ELSE IF t.name = "LSPAny" THEN JEq(w, j)
            ELSE RT(j, w, ADef[t.name].type)
      [] t.kind = "array" -> /\ j.k = "arr" /\ w.k = "arr" /\ Len(j.a) = Len(w.a)
                             /\ \A i \in DOMAIN j.a : RT(j.a[i], w.a[i], t.element)
      [] t.kind = "map" -> /\ j.k = "obj" /\ w.k = "obj" /\ DOMAIN j.f = DOMAIN w.f
                           /\ \A key \in DOMAIN j.f : RT(j.f[key], w.f[key], t.value)
      \* some alternative valid for j explains w, and nothing any valid reading declares is lost
      \* ("whichever union alternative the converter chooses")
      [] t.kind = "or" -> /\ \E i \in DOMAIN t.items : Valid(j, t.items[i]) /\ RT(j, w, t.items[i])
                          /\ Lossless(j, w)
      [] t.kind = "and" -> RTProps(j, w, AndProps(t.items))
      [] t.kind = "tuple" -> /\ j.k = "arr" /\ w.k = "arr" /\ Len(j.a) = Len(w.a)
                             /\ Len(j.a) = Len(t.items)
                             /\ \A i \in DOMAIN j.a : RT(j.a[i], w.a[i], t.items[i])
      [] t.kind = "literal" -> IF t.value.properties = <<>> THEN JEq(w, j)
                               ELSE RTProps(j, w, t.value.properties)
      [] OTHER -> JEq(w, j)
=============================================================================
