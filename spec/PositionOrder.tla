---------------------------- MODULE PositionOrder ----------------------------
(***************************************************************************)
(* C20: Position order is lexicographic and total; Range / Location        *)
(* equality is structural; foreign operands give == False and TypeError.   *)
(*                                                                          *)
(* Spec side (cfg PositionOrder gen): the cases are the states of a        *)
(* one-step system; TLC checks that the oracle Lex is a strict total order *)
(* on the boundary grid (trichotomy, transitivity, antisymmetry) and       *)
(* prints every case.  Implementation side (cfg trace): the harness        *)
(* evaluates the six operators and repr() on the real classes for every    *)
(* case and TLC judges each recorded result against Lex.                   *)
(***************************************************************************)
EXTENDS Naturals, Integers, Sequences, FiniteSets, TLC, Json, IOUtils

CONSTANTS NEvents      \* number of recorded events (trace mode), 0 in generation mode

Grid == {0, 1, 2, 2147483646, 2147483647}
Pos  == Grid \X Grid
Lex(a, b) == a[1] < b[1] \/ (a[1] = b[1] /\ a[2] < b[2])

P4   == {<<0, 0>>, <<0, 1>>, <<1, 0>>, <<2147483647, 2147483647>>}
Rng  == P4 \X P4
R3   == {<<<<0, 0>>, <<0, 1>>>>, <<<<0, 0>>, <<1, 0>>>>, <<<<1, 0>>, <<1, 0>>>>}
\* ... and uris that some normalisation would identify (percent-encoding, case, trailing slash): equality is on the strings
Uris == {"file:///a", "file:///b", "file:///c%3A/a", "file:///c:/a", "FILE:///a", "file:///a/", "file:///%61"}
Loc  == {[uri |-> u, r |-> r] : u \in Uris, r \in R3}
\* "*-like": an unrelated object that merely exposes equal attributes of the same names
Foreign == {"int", "str", "none", "tuple", "float", "dict", "position-like", "range-like", "location-like"}

Cases == {[k |-> "pos", pa |-> a, pb |-> b] : a \in Pos, b \in Pos}
         \cup {[k |-> "range", ra |-> a, rb |-> b] : a \in Rng, b \in Rng}
         \cup {[k |-> "loc", la |-> a, lb |-> b] : a \in Loc, b \in Loc}
         \cup {[k |-> "foreign", fk |-> fk, other |-> ot] : fk \in {"pos", "range", "loc"}, ot \in Foreign \cup {"range", "loc", "pos"}}

VARIABLES svCase, svL
Init == svCase \in Cases /\ svL = 0
Next == UNCHANGED <<svCase, svL>>

\* the oracle is a strict total order on the grid
Trichotomy == svCase.k = "pos" =>
    LET a == svCase.pa  b == svCase.pb IN
    /\ (Lex(a, b) \/ a = b \/ Lex(b, a))
    /\ ~(Lex(a, b) /\ a = b) /\ ~(Lex(a, b) /\ Lex(b, a)) /\ ~(a = b /\ Lex(b, a))
Transitive == svCase.k = "pos" =>
    \A c \in Pos : (Lex(svCase.pa, svCase.pb) /\ Lex(svCase.pb, c)) => Lex(svCase.pa, c)
\* a foreign operand is only meaningful when it is of another kind than the left operand
ForeignOK(c) == c.k = "foreign" => c.fk # c.other
EmitCase == IF ForeignOK(svCase) THEN PrintT("@P " \o ToJson(svCase)) ELSE TRUE

(***************************************************************************)
(* Trace mode.                                                              *)
(***************************************************************************)
Trace == JsonDeserialize(IOEnv.POS_TRACE)
B(x) == IF x THEN "T" ELSE "F"
PosRepr(p) == ToString(p[1]) \o ":" \o ToString(p[2])
RngRepr(r) == PosRepr(r[1]) \o "-" \o PosRepr(r[2])

Fails(ev) ==
    CASE ev.k = "pos" ->
            LET a == ev.pa  b == ev.pb IN
            (IF /\ ev.lt = B(Lex(a, b)) /\ ev.gt = B(Lex(b, a))
                /\ ev.le = B(Lex(a, b) \/ a = b) /\ ev.ge = B(Lex(b, a) \/ a = b)
                /\ ev.eq = B(a = b) /\ ev.ne = B(a # b)
                /\ Cardinality({x \in {ev.lt, ev.eq, ev.gt} : x = "T"}) <= 1
                /\ "T" \in {ev.lt, ev.eq, ev.gt}
             THEN {} ELSE {"P_order"})
            \cup (IF ev.repr = PosRepr(a) THEN {} ELSE {"P_repr"})
      [] ev.k = "range" ->
            (IF ev.eq = B(ev.ra = ev.rb) /\ ev.ne = B(ev.ra # ev.rb) THEN {} ELSE {"P_eq"})
            \cup (IF ev.repr = RngRepr(ev.ra) THEN {} ELSE {"P_repr"})
      [] ev.k = "loc" ->
            (IF /\ ev.eq = B(ev.la.uri = ev.lb.uri /\ ev.la.r = ev.lb.r)
                /\ ev.ne = B(~(ev.la.uri = ev.lb.uri /\ ev.la.r = ev.lb.r)) THEN {} ELSE {"P_eq"})
            \cup (IF ev.repr = ev.la.uri \o ":" \o RngRepr(ev.la.r) THEN {} ELSE {"P_repr"})
      [] ev.k = "foreign" ->
            IF /\ ev.eq = "F" /\ ev.ne = "T"
               /\ ev.lt = "TypeError" /\ ev.le = "TypeError" /\ ev.gt = "TypeError" /\ ev.ge = "TypeError"
            THEN {} ELSE {"P_foreign"}

TInit == svL = 1 /\ svCase = 0
Step == /\ svL <= NEvents
        /\ LET f == Fails(Trace[svL]) IN
           IF f = {} THEN TRUE ELSE PrintT("@F " \o ToJson([l |-> svL, c |-> f]))
        /\ svL' = svL + 1
        /\ TLCSet(1, svL)
        /\ UNCHANGED svCase
AllConsumed == TLCGet(1) = NEvents /\ PrintT("@DONE " \o ToString(TLCGet(1)))
=============================================================================
