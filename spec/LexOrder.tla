------------------------------ MODULE LexOrder ------------------------------
(***************************************************************************)
(* The oracle of C20 (PositionOrder.tla: Lex) is a strict total order on   *)
(* all of Nat \X Nat, not only on the boundary grid TLC enumerates.        *)
(* Proved with TLAPS (tlapm); a cheap adjunct, it does not bind the code.  *)
(***************************************************************************)
EXTENDS Naturals, TLAPS

Pos == Nat \X Nat
Lex(a, b) == a[1] < b[1] \/ (a[1] = b[1] /\ a[2] < b[2])

THEOREM Irreflexive == \A a \in Pos : ~Lex(a, a)
  BY DEF Pos, Lex

THEOREM Trichotomy == \A a, b \in Pos : Lex(a, b) \/ a = b \/ Lex(b, a)
  <1> TAKE a, b \in Pos
  <1>1. a = <<a[1], a[2]>> /\ b = <<b[1], b[2]>>
    BY DEF Pos
  <1>2. a[1] \in Nat /\ a[2] \in Nat /\ b[1] \in Nat /\ b[2] \in Nat
    BY DEF Pos
  <1> QED
    BY <1>1, <1>2 DEF Lex

THEOREM Asymmetric == \A a, b \in Pos : Lex(a, b) => ~Lex(b, a)
  BY DEF Pos, Lex

THEOREM Transitive == \A a, b, c \in Pos : Lex(a, b) /\ Lex(b, c) => Lex(a, c)
  BY DEF Pos, Lex
=============================================================================
