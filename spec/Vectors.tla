------------------------------- MODULE Vectors -------------------------------
(***************************************************************************)
(* State machine G (C17): the test-vector corpus of the testdata plugin.   *)
(* Every file <MessageClass>-<True|False>-<hash>.json is one Emit event:   *)
(*     [name, kind, method, label, j, ok]                                   *)
(* kind / method identify the message class, label is the True/False of    *)
(* the file name, j the content (tagged JSON, floats kept apart from       *)
(* ints), ok whether the Python converter accepted it (True vectors only). *)
(*                                                                          *)
(* The oracle is Strict3: validity under the metamodel read STRICTLY        *)
(* (declared properties only, required ones present, integer ranges,       *)
(* closed enumerations, literal values, integer-or-string request id),     *)
(* three-valued: where the property statement is silent the verdict is     *)
(* "unspec" and no label is demanded (DESIGN 4.2):                          *)
(*   - an integral float (1.0) at an integer position or as an id          *)
(*   - "params": null on a message that declares no params                 *)
(*   - undeclared keys on a structure / literal that declares no           *)
(*     properties at all (the plugin's "lspExtension" extension point)     *)
(***************************************************************************)
EXTENDS LspValue

CONSTANTS NEvents

Vecs == JsonDeserialize(IOEnv.VEC_TRACE)

V == "valid"
I == "invalid"
U == "unspec"
\* conjunction / disjunction of three-valued verdicts
All3(S) == IF I \in S THEN I ELSE IF U \in S THEN U ELSE V
Any3(S) == IF V \in S THEN V ELSE IF U \in S THEN U ELSE I
B3(b) == IF b THEN V ELSE I

IntegralFloat(j) == j.k = "dec" /\ "integral" \in DOMAIN j /\ j.integral

S3Base(j, b) ==
    CASE b \in StringBases -> B3(j.k = "str")
      [] b \in {"integer", "uinteger"} ->
            IF IsIntNode(j) THEN B3(InRange(b, j)) ELSE IF IntegralFloat(j) THEN U ELSE I
      [] b = "decimal" -> B3(j.k = "dec" \/ IsIntNode(j))
      [] b = "boolean" -> B3(j.k = "bool")
      [] b = "null" -> B3(j.k = "null")
      [] OTHER -> I

RECURSIVE S3(_, _)
S3Props(j, props) ==
    IF j.k # "obj" THEN I
    ELSE LET declared == {props[i].name : i \in DOMAIN props}
             extra == DOMAIN j.f \ declared
         IN All3({IF extra = {} THEN V ELSE IF props = <<>> THEN U ELSE I}
                 \cup {IF props[i].name \in DOMAIN j.f THEN S3(j.f[props[i].name], props[i].type)
                       ELSE B3(Optional(props[i])) : i \in DOMAIN props})
S3(j, t) ==
    CASE t.kind = "base" -> S3Base(j, t.name)
      [] t.kind = "reference" ->
            IF t.name \in SName THEN S3Props(j, FlatM[t.name])
            ELSE IF t.name \in EName THEN
                   (IF EnumBase(t.name) # "string" /\ IntegralFloat(j) THEN U
                    ELSE B3(ValidEnum(j, t.name, OpenMM(t.name))))
            ELSE IF t.name = "LSPAny" THEN V
            ELSE S3(j, ADef[t.name].type)
      [] t.kind = "array" -> IF j.k # "arr" THEN I ELSE All3({S3(j.a[i], t.element) : i \in DOMAIN j.a})
      [] t.kind = "map" -> IF j.k # "obj" THEN I ELSE All3({S3(j.f[key], t.value) : key \in DOMAIN j.f})
      [] t.kind = "or" -> Any3({S3(j, t.items[i]) : i \in DOMAIN t.items})
      [] t.kind = "and" -> S3Props(j, AndProps(t.items))
      [] t.kind = "tuple" -> IF j.k # "arr" \/ Len(j.a) # Len(t.items) THEN I
                             ELSE All3({S3(j.a[i], t.items[i]) : i \in DOMAIN t.items})
      [] t.kind = "literal" -> S3Props(j, t.value.properties)
      [] t.kind = "stringLiteral" -> B3(j.k = "str" /\ j.s = t.value)
      [] OTHER -> I

(***************************************************************************)
(* Strict envelopes.                                                        *)
(***************************************************************************)
StrictIdT == OrT(<<BaseT("integer"), BaseT("string")>>)
ErrorProps == << [name |-> "code", type |-> BaseT("integer")],
                 [name |-> "message", type |-> BaseT("string")],
                 [name |-> "data", type |-> [kind |-> "reference", name |-> "LSPAny"], optional |-> TRUE] >>
ErrorT == [kind |-> "literal", value |-> [properties |-> ErrorProps]]

\* params of a message that declares none: only null is (perhaps) tolerable
NoParams(j) == IF "params" \notin DOMAIN j.f THEN V ELSE IF j.f.params.k = "null" THEN U ELSE I
Without(j, key) == JObj([n \in DOMAIN j.f \ {key} |-> j.f[n]])

S3Message(kind, m, j) ==
    IF j.k # "obj" THEN I
    ELSE LET d == MsgDef(m)
             core == CASE kind = "request" ->
                            << [name |-> "id", type |-> StrictIdT], [name |-> "method", type |-> LitT(m)],
                               [name |-> "jsonrpc", type |-> LitT("2.0")] >>
                       [] kind = "notification" ->
                            << [name |-> "method", type |-> LitT(m)], [name |-> "jsonrpc", type |-> LitT("2.0")] >>
                       [] kind = "response" ->
                            << [name |-> "id", type |-> StrictIdT], [name |-> "jsonrpc", type |-> LitT("2.0")],
                               [name |-> "result", type |-> Opt(d, "result", NullT)],
                               [name |-> "error", type |-> ErrorT, optional |-> TRUE] >>
         IN IF kind = "response" THEN S3Props(j, core)
            ELSE IF HasParams(d) THEN S3Props(j, core \o << [name |-> "params", type |-> d.params] >>)
            ELSE All3({NoParams(j), S3Props(Without(j, "params"), core)})

(***************************************************************************)
(* Trace.                                                                   *)
(***************************************************************************)
VARIABLES svL, svSeen
TInit == svL = 1 /\ svSeen = {}

Fails(ev, verdict) ==
    (IF verdict = V /\ ~ev.label THEN {"V_label_false_but_valid"} ELSE {})
    \cup (IF verdict = I /\ ev.label THEN {"V_label_true_but_invalid"} ELSE {})
    \cup (IF ev.label /\ ~ev.ok THEN {"V_true_vector_rejected_by_converter"} ELSE {})

TStep == /\ svL <= NEvents
         /\ LET ev == Vecs[svL]
                verdict == S3Message(ev.kind, ev.method, ev.j)
                f == Fails(ev, verdict)
            IN /\ IF f = {} THEN TRUE ELSE PrintT("@F " \o ToJson([l |-> svL, c |-> f, verdict |-> verdict]))
               /\ IF verdict = U THEN PrintT("@U " \o ToJson([l |-> svL])) ELSE TRUE
               /\ svSeen' = IF ev.label /\ verdict # I THEN svSeen \cup {<<ev.kind, ev.method>>} ELSE svSeen
         /\ svL' = svL + 1
         /\ TLCSet(1, svL)
         /\ TLCSet(2, svSeen')
AllConsumed == /\ TLCGet(1) = NEvents
               /\ PrintT("@T " \o ToJson(TLCGet(2)))
               /\ PrintT("@DONE " \o ToString(TLCGet(1)))
=============================================================================
