CONSTANTS K = 1 NShards = 1 Shard = 0 Emit = FALSE RootSel = "all" KV = 0
INIT Init
NEXT Next
VIEW View
INVARIANT GenShape
INVARIANT GenValid
INVARIANT GenStrict
INVARIANT NormalIdem
INVARIANT DeviationIsInvalid
INVARIANT TolerantStaysValid
INVARIANT EmitState
CHECK_DEADLOCK FALSE
