----------------------------- MODULE DotnetImage -----------------------------
(***************************************************************************)
(* C08: the image the generated C# sources must be of the metamodel,       *)
(* compared with the image extracted from the .cs files                    *)
(* (harness/extract_cs.py: records, DataMember names, parsed type terms,   *)
(* nullability, NullValueHandling.Ignore, JsonConstructor assignments,     *)
(* enum members, LSPRequest / LSPResponse / Direction attributes).         *)
(***************************************************************************)
EXTENDS LspMeta

Img == JsonDeserialize(IOEnv.CS_IMAGE)
Rc == Img.records
En == Img.enums

Ty(c) == [c |-> c, a |-> <<>>]
Wild == Ty("(generated)")          \* a class the generator names itself (literal, variant literals, map value alias)

NonNull(items) == SelectSeq(items, LAMBDA t : ~IsNullT(t))
\* the generator renames one structure because C# forbids a member named like its class
ClsName(s) == IF s = "Command" THEN "CommandAction" ELSE s

RECURSIVE CsTy(_)
CsTy(t) ==
    CASE t.kind = "base" ->
            (CASE t.name \in {"string", "RegExp"} -> Ty("string")
               [] t.name \in {"DocumentUri", "URI"} -> Ty("Uri")
               [] t.name = "decimal" -> Ty("float")
               [] t.name = "integer" -> Ty("int")
               [] t.name = "uinteger" -> Ty("long")
               [] t.name = "boolean" -> Ty("bool")
               [] OTHER -> Ty("object"))
      [] t.kind = "reference" ->
            IF t.name \in EName /\ OpenMM(t.name) THEN Ty(IF EnumBase(t.name) = "string" THEN "string" ELSE "int")
            ELSE Ty(ClsName(t.name))
      [] t.kind = "array" -> [c |-> "ImmutableArray", a |-> <<CsTy(t.element)>>]
      [] t.kind = "map" ->
            [c |-> "ImmutableDictionary",
             a |-> <<CsTy(t.key), IF t.value.kind = "or" /\ Len(NonNull(t.value.items)) >= 2 THEN Wild ELSE CsTy(t.value)>>]
      [] t.kind = "tuple" -> [c |-> "(tuple)", a |-> [i \in DOMAIN NonNull(t.items) |-> CsTy(NonNull(t.items)[i])]]
      [] t.kind = "or" ->
            LET nn == NonNull(t.items) IN
            IF Len(nn) = 1 THEN CsTy(nn[1])
            ELSE IF \A i \in DOMAIN nn : nn[i].kind = "literal" THEN Wild
            ELSE [c |-> "OrType", a |-> [i \in DOMAIN nn |-> CsTy(nn[i])]]
      [] t.kind = "literal" -> Wild
      [] t.kind = "stringLiteral" -> Ty("string")
      [] OTHER -> Ty("(unsupported)")

RECURSIVE TyEq(_, _)
TyEq(x, e) == IF e.c = "(generated)" THEN x.a = <<>> /\ (x.c \in DOMAIN Rc \/ x.c = "LSPObject" \/ x.c = "LSPAny")
              ELSE x.c = e.c /\ Len(x.a) = Len(e.a) /\ \A i \in DOMAIN x.a : TyEq(x.a[i], e.a[i])

Immutable(term) == term.c \in {"ImmutableArray", "ImmutableDictionary"}

Fail(c, pos) == [c |-> c, pos |-> pos]
PropsWired(r, n) == {i \in DOMAIN Rc[r].props : Rc[r].props[i].wire = n}

StructFails(s) ==
    LET r == ClsName(s) IN
    \* structures whose name starts with "_" are internal bases the plugin folds into their heirs
    \* (Img.private_names: the string test is done by the harness on the model file)
    IF r \notin DOMAIN Rc THEN (IF s = "LSPObject" \/ s \in SeqSet(Img.private_names) THEN {} ELSE {Fail("D_record_missing", s)})
    ELSE LET want == {FlatM[s][i].name : i \in DOMAIN FlatM[s]}
             have == {Rc[r].props[i].wire : i \in DOMAIN Rc[r].props}
         IN {Fail("D_member_missing", s \o "." \o n) : n \in want \ have}
            \cup {Fail("D_member_extra", s \o "." \o n) : n \in have \ want}
            \cup (IF Rc[r].has_json_ctor \/ FlatM[s] = <<>> THEN {} ELSE {Fail("D_no_json_constructor", s)})
            \cup UNION { LET p == FlatM[s][i]
                             pos == s \o "." \o p.name
                             idx == PropsWired(r, p.name)
                         IN IF Cardinality(idx) # 1 THEN {Fail("D_member_duplicate", pos)}
                            ELSE LET m == Rc[r].props[CHOOSE k \in idx : TRUE]
                                     exp == CsTy(p.type)
                                     nullable == Optional(p) \/ OrHasNull(p.type)
                                     ignore == Optional(p) /\ ~OrHasNull(p.type)
                                 IN (IF TyEq(m.ty, exp) THEN {} ELSE {Fail("D_member_type", pos)})
                                    \* nullable / null-ignoring are not asserted for immutable collections (DESIGN 4.2)
                                    \cup (IF Immutable(exp) \/ m.nullable = nullable THEN {} ELSE {Fail("D_nullable", pos)})
                                    \cup (IF Immutable(exp) \/ m.ignore_null = ignore THEN {} ELSE {Fail("D_null_ignoring", pos)})
                                    \cup (IF \E k \in DOMAIN Rc[r].ctor_assigned : Rc[r].ctor_assigned[k] = m.name THEN {}
                                          ELSE {Fail("D_not_assigned_in_constructor", pos)})
                       : i \in {i \in DOMAIN FlatM[s] : FlatM[s][i].name \in have} }

EnumFails(e) ==
    IF e \notin DOMAIN En THEN {Fail("D_enum_missing", e)}
    ELSE LET mem == En[e].members
             vs == EDef[e].values
             str == EnumBase(e) = "string"
             MV(k) == IF str THEN mem[k].value.s ELSE mem[k].value.i
             kindOK == \A k \in DOMAIN mem : mem[k].value.k = (IF str THEN "str" ELSE "int")
         IN IF ~kindOK THEN {Fail("D_enum_value_kind", e)}
            ELSE {Fail("D_enum_value", e \o "." \o vs[i].name) :
                    i \in {i \in DOMAIN vs : Cardinality({k \in DOMAIN mem : MV(k) = vs[i].value})
                                             # Cardinality({k \in DOMAIN vs : vs[k].value = vs[i].value})}}
                 \cup {Fail("D_enum_value_extra", e \o "." \o mem[k].name) :
                         k \in {k \in DOMAIN mem : \A i \in DOMAIN vs : vs[i].value # MV(k)}}

DirName == [clientToServer |-> "ClientToServer", serverToClient |-> "ServerToClient", both |-> "Both"]
DirOf(m) == IF MsgDef(m).messageDirection \in DOMAIN DirName THEN DirName[MsgDef(m).messageDirection] ELSE "(unknown)"

RequestFails(m) ==
    LET rs == {r \in DOMAIN Rc : Rc[r].has_lsp_request /\ Rc[r].req_method = m} IN
    IF Cardinality(rs) # 1 THEN {Fail("D_request_class", m)}
    ELSE LET r == CHOOSE r \in rs : TRUE
             q == Rc[r].req_resp
         IN (IF q \in DOMAIN Rc /\ Rc[q].resp_of = r THEN {} ELSE {Fail("D_request_response_pairing", m)})
            \cup (IF Rc[r].direction = DirOf(m) THEN {} ELSE {Fail("D_direction", m)})
            \cup (IF \E k \in DOMAIN Rc[r].props : Rc[r].props[k].wire = "method" THEN {} ELSE {Fail("D_message_members", m)})

\* notification classes carry no method attribute: the class is found by its typeName; the method
\* strings themselves are checked on the LSPMethods table
\* (the class is named by the typeName, with "Notification" appended when the typeName does not end in it)
NotificationFails(m) ==
    LET d == NotDef[m] IN
    IF "typeName" \notin DOMAIN d THEN {}
    ELSE LET cands == {d.typeName, d.typeName \o "Notification"} \cap DOMAIN Rc IN
         IF cands = {} THEN {Fail("D_notification_class", m)}
         ELSE LET c == CHOOSE c \in cands : TRUE IN
              (IF Rc[c].direction = DirOf(m) THEN {} ELSE {Fail("D_direction", m)})
              \cup (IF \E k \in DOMAIN Rc[c].props : Rc[c].props[k].wire = "method" THEN {}
                    ELSE {Fail("D_message_members", m)})

MethodTable == {Img.methods[k] : k \in DOMAIN Img.methods}
TableFails == {Fail("D_method_string_missing", m) : m \in Methods \ MethodTable}
              \cup {Fail("D_method_string_extra", m) : m \in MethodTable \ Methods}
              \cup {Fail("D_extra_request_class", r) :
                      r \in {r \in DOMAIN Rc : Rc[r].has_lsp_request /\ Rc[r].req_method \notin ReqM}}

Failures == UNION {StructFails(s) : s \in SName}
            \cup UNION {EnumFails(e) : e \in EName}
            \cup UNION {RequestFails(m) : m \in ReqM}
            \cup UNION {NotificationFails(m) : m \in NotM}
            \cup TableFails

Obligations == [structs |-> Cardinality(SName), enums |-> Cardinality(EName), methods |-> Cardinality(Methods),
                records_in_sources |-> Cardinality(DOMAIN Rc), files |-> Img.files]

VARIABLE svDone
Init == svDone = FALSE
Next == /\ ~svDone
        /\ ModelWellFormed
        /\ \A f \in Failures : PrintT("@F " \o ToJson(f))
        /\ PrintT("@O " \o ToJson(Obligations))
        /\ svDone' = TRUE
=============================================================================
