------------------------------ MODULE EmitOrder ------------------------------
(***************************************************************************)
(* State machine D: the order in which the Python generator emits          *)
(* definitions.  TypesCodeGenerator keeps an ordered table of definitions  *)
(* (_add_type_code ignores a second definition of a name); the text of     *)
(* types.py is the log of that table, read back by the harness as one Def  *)
(* event per top-level statement:                                           *)
(*     [kind, name, uses, fields]                                           *)
(* uses   = names evaluated when the statement executes (decorators, bases, *)
(*          unquoted annotations, field(...) arguments, right-hand sides)   *)
(* fields = attrs fields in order with whether they have a default          *)
(* The module imports only if every used name is already defined; attrs     *)
(* accepts a class only if no required field follows a defaulted one; a     *)
(* declaration that is emitted twice means one of them was silently         *)
(* dropped by the generator's table.                                        *)
(***************************************************************************)
EXTENDS LspMeta

CONSTANTS NEvents
Trace == JsonDeserialize(IOEnv.EMIT_TRACE)
Prelude == SeqSet(Trace.prelude)
Ev == Trace.events

VARIABLES svL, svDefined
TInit == svL = 1 /\ svDefined = {}

RequiredAfterDefault(fs) == \E i, k \in DOMAIN fs : i < k /\ fs[i].default /\ ~fs[k].default

Fails(ev) ==
    (IF SeqSet(ev.uses) \subseteq svDefined \cup Prelude THEN {} ELSE {"O_use_before_definition"})
    \cup (IF ev.kind \in {"class", "enum", "alias"} /\ ev.name \in svDefined THEN {"O_defined_twice"} ELSE {})
    \cup (IF ev.kind = "class" /\ RequiredAfterDefault(ev.fields) THEN {"O_required_after_default"} ELSE {})

Step == /\ svL <= NEvents
        /\ LET ev == Ev[svL]  f == Fails(ev) IN
           IF f = {} THEN TRUE
           ELSE PrintT("@F " \o ToJson([l |-> svL, c |-> f, name |-> ev.name,
                                        missing |-> SeqSet(ev.uses) \ (svDefined \cup Prelude)]))
        /\ svDefined' = svDefined \cup {Ev[svL].name}
        /\ svL' = svL + 1
        /\ TLCSet(1, svL)
        /\ TLCSet(2, svDefined')

\* at the end every declaration of the metamodel has been emitted
AllConsumed == /\ TLCGet(1) = NEvents
               /\ \A n \in (SName \cup EName \cup AName) \ TLCGet(2) : PrintT("@F " \o ToJson([l |-> 0, c |-> {"O_never_emitted"}, name |-> n, missing |-> {}]))
               /\ PrintT("@DONE " \o ToString(TLCGet(1)))
=============================================================================
