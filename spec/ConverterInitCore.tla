-------------------------- MODULE ConverterInitCore ----------------------------
(***************************************************************************)
(* State machine B: first use of lsprotocol.converters.get_converter from  *)
(* several threads (C19).                                                   *)
(*                                                                          *)
(* _hooks._resolve_forward_references does, per calling thread,             *)
(*     if not flag:                                   Enter                 *)
(*         [lock.acquire(); if flag: release, skip]   Acquire / Recheck     *)
(*         items = list(filter(_filter, MAP.items())) IterStep x KItems     *)
(*         for cls in items: attrs.resolve_types(cls, MAP, {})  ResolveStep *)
(*         flag = True                                SetFlag               *)
(*         [lock.release()]                           Release               *)
(*     register hooks on the caller's own converter   Hooks                 *)
(* Iterating MAP raises RuntimeError("dictionary changed size during        *)
(* iteration") when the dict's size changed since the iteration began, and  *)
(* the first resolve_types call of the process inserts "__builtins__" into  *)
(* MAP (eval with MAP as globals).  Locked selects the design with the      *)
(* double-checked lock (the repaired code) or without it (the original).    *)
(*                                                                          *)
(* svHist records the schedule; every maximal behaviour is printed and      *)
(* forced on the real code by the harness (sys.settrace scheduler).         *)
(***************************************************************************)
EXTENDS Naturals, Sequences, FiniteSets


CONSTANTS Threads,    \* e.g. {"t1", "t2"}
          KItems,     \* abstract number of dict items visited by the iteration
          NClasses,   \* abstract number of classes resolved
          Locked      \* TRUE: double-checked lock around the resolution

VARIABLES svFlag,     \* _resolved_forward_references
          svVer,      \* 0: MAP has its original size, 1: "__builtins__" has been inserted
          svLock,     \* "free" or the holder
          svPc,       \* thread -> control point
          svIt,       \* thread -> items visited by its iteration
          svSeen,     \* thread -> dict version when its iteration began
          svRes,      \* thread -> classes resolved by it
          svHist      \* the schedule so far: sequence of [t, a]
cvars == <<svFlag, svVer, svLock, svPc, svIt, svSeen, svRes, svHist>>

Log(t, a) == svHist' = Append(svHist, [t |-> t, a |-> a, pcs |-> [u \in Threads |-> svPc[u]], f |-> svFlag, v |-> svVer])

Init == /\ svFlag = FALSE /\ svVer = 0 /\ svLock = "free"
        /\ svPc = [t \in Threads |-> "start"]
        /\ svIt = [t \in Threads |-> 0]
        /\ svSeen = [t \in Threads |-> 0]
        /\ svRes = [t \in Threads |-> 0]
        /\ svHist = <<>>

Enter(t) == /\ svPc[t] = "start"
            /\ svPc' = [svPc EXCEPT ![t] = IF svFlag THEN "hooks" ELSE IF Locked THEN "acquire" ELSE "iter"]
            /\ svSeen' = [svSeen EXCEPT ![t] = svVer]
            /\ Log(t, "Enter")
            /\ UNCHANGED <<svFlag, svVer, svLock, svIt, svRes>>

Acquire(t) == /\ svPc[t] = "acquire" /\ svLock = "free"
              /\ svLock' = t
              /\ svPc' = [svPc EXCEPT ![t] = IF svFlag THEN "release" ELSE "iter"]    \* the re-check under the lock
              /\ svSeen' = [svSeen EXCEPT ![t] = svVer]
              /\ Log(t, "Acquire")
              /\ UNCHANGED <<svFlag, svVer, svIt, svRes>>

IterStep(t) == /\ svPc[t] = "iter"
               /\ IF svVer # svSeen[t]
                  THEN /\ svPc' = [svPc EXCEPT ![t] = "dead"]       \* RuntimeError: dictionary changed size during iteration
                       /\ UNCHANGED svIt
                  ELSE /\ svIt' = [svIt EXCEPT ![t] = @ + 1]
                       /\ svPc' = [svPc EXCEPT ![t] = IF svIt[t] + 1 = KItems THEN "resolve" ELSE "iter"]
               /\ Log(t, "IterStep")
               /\ UNCHANGED <<svFlag, svVer, svLock, svSeen, svRes>>

ResolveStep(t) == /\ svPc[t] = "resolve"
                  /\ svVer' = 1                                       \* the first eval inserts __builtins__
                  /\ svRes' = [svRes EXCEPT ![t] = @ + 1]
                  /\ svPc' = [svPc EXCEPT ![t] = IF svRes[t] + 1 = NClasses THEN "setflag" ELSE "resolve"]
                  /\ Log(t, "ResolveStep")
                  /\ UNCHANGED <<svFlag, svLock, svIt, svSeen>>

SetFlag(t) == /\ svPc[t] = "setflag"
              /\ svFlag' = TRUE
              /\ svPc' = [svPc EXCEPT ![t] = IF Locked THEN "release" ELSE "hooks"]
              /\ Log(t, "SetFlag")
              /\ UNCHANGED <<svVer, svLock, svIt, svSeen, svRes>>

Release(t) == /\ svPc[t] = "release"
              /\ svLock' = "free"
              /\ svPc' = [svPc EXCEPT ![t] = "hooks"]
              /\ Log(t, "Release")
              /\ UNCHANGED <<svFlag, svVer, svIt, svSeen, svRes>>

Hooks(t) == /\ svPc[t] = "hooks"
            /\ svPc' = [svPc EXCEPT ![t] = "done"]
            /\ Log(t, "Hooks")
            /\ UNCHANGED <<svFlag, svVer, svLock, svIt, svSeen, svRes>>

Step(t) == Enter(t) \/ Acquire(t) \/ IterStep(t) \/ ResolveStep(t) \/ SetFlag(t) \/ Release(t) \/ Hooks(t)
Next == \E t \in Threads : Step(t)
Spec == Init /\ [][Next]_cvars
FairSpec == Spec /\ \A t \in Threads : WF_cvars(Step(t))

Finished == \A t \in Threads : svPc[t] \in {"done", "dead"}

(***************************************************************************)
(* Properties of the design.                                                *)
(***************************************************************************)
NoError == \A t \in Threads : svPc[t] # "dead"
\* hooks are only registered once every class is resolved
HooksOnlyAfterResolved == \A t \in Threads : svPc[t] \in {"hooks", "done"} => svFlag
\* with the lock at most one thread is inside the critical section
MutualExclusion == Locked => Cardinality({t \in Threads : svPc[t] \in {"iter", "resolve", "setflag"}}) <= 1
AllDone == <>(\A t \in Threads : svPc[t] = "done")
=============================================================================
