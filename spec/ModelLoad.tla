------------------------------ MODULE ModelLoad ------------------------------
(***************************************************************************)
(* State machine F (C18): the generator's model layer and schema gate.     *)
(*                                                                          *)
(*   Load(docs)      python -m generator --model d1 .. dn --plugin <probe>  *)
(*                   the probe plugin receives the LSPModel the CLI built   *)
(*                   and writes its content back as JSON                    *)
(*   Eq(a, b)        create_lsp_model([a]) == create_lsp_model([b])         *)
(*   Gate(doc, p)    python -m generator --model doc --plugin p with a      *)
(*                   schema-violating doc                                   *)
(*                                                                          *)
(* Generation mode enumerates the cases (edit kinds x targets x plugins);  *)
(* trace mode judges the recorded events.  Documents travel in the tagged  *)
(* JSON encoding of LspValue (JEq is tag-safe).                             *)
(***************************************************************************)
EXTENDS LspValue

CONSTANTS NEvents,
          NInter      \* generation: suspension points for the interleaved loads

Lists == <<"requests", "notifications", "structures", "enumerations", "typeAliases">>

(***************************************************************************)
(* Canon erases only what the schema makes optional-with-default: absent   *)
(* extends / mixins = [] on structures.  (Absent optional keys are absent  *)
(* in the read-back too: the probe omits None.)                            *)
(***************************************************************************)
DropEmpty(s, key) == IF key \in DOMAIN s.f /\ s.f[key].k = "arr" /\ s.f[key].a = <<>>
                     THEN JObj([n \in DOMAIN s.f \ {key} |-> s.f[n]]) ELSE s
CanonStruct(s) == DropEmpty(DropEmpty(s, "extends"), "mixins")
Canon(d) == IF d.k = "obj" /\ "structures" \in DOMAIN d.f /\ d.f.structures.k = "arr"
            THEN JObj([n \in DOMAIN d.f |-> IF n = "structures"
                                             THEN JArr([i \in DOMAIN d.f.structures.a |-> CanonStruct(d.f.structures.a[i])])
                                             ELSE d.f[n]])
            ELSE d

\* several model files load as the first one extended, in order, by the others' declarations
ListOf(d, name) == IF name \in DOMAIN d.f THEN d.f[name].a ELSE <<>>
RECURSIVE Concat(_, _)
Concat(docs, name) == IF docs = <<>> THEN <<>> ELSE ListOf(Head(docs), name) \o Concat(Tail(docs), name)
Merge(docs) == LET first == docs[1] IN
               JObj([n \in DOMAIN first.f |->
                       IF \E i \in DOMAIN Lists : Lists[i] = n THEN JArr(Concat(docs, n)) ELSE first.f[n]])

StructuralKinds == {"rename_structure", "rename_property", "property_type", "flip_optional", "enum_value", "enum_item_name",
                    "or_items_order", "add_extends", "add_mixin", "method", "direction", "params", "result", "drop_partial_result",
                    "error_data", "registration_options", "registration_method", "version", "add_structure", "remove_structure",
                    "add_property", "remove_property", "alias_type", "rename_alias", "add_enum_value", "array_element", "map_value",
                    "tuple_item", "literal_value", "notification_params", "rename_enum", "enum_base"}
\* edits the property statement does not speak about (annotations): no verdict demanded
AnnotationKinds == {"documentation", "since", "proposed", "deprecated", "typeName", "supportsCustomValues"}

(***************************************************************************)
(* Grammar edits.  The alphabet of one-position edits is not a hand-made   *)
(* list: it is read off the metamodel schema itself (every key of every    *)
(* definition x every generic operation on the value found there), so an   *)
(* equality method that forgets a field, or looks at only part of a list,  *)
(* has a case here whichever field or list it is.                          *)
(***************************************************************************)
Schema == JsonDeserialize(IF "LSP_SCHEMA" \in DOMAIN IOEnv THEN IOEnv.LSP_SCHEMA ELSE "/repo/generator/lsp.schema.json")
Defs == {dn \in DOMAIN Schema.definitions : "properties" \in DOMAIN Schema.definitions[dn]}
KeysOf(dn) == DOMAIN Schema.definitions[dn].properties
GOps == {"change", "drop", "add", "rekind", "to_array", "to_empty_array", "append", "prepend", "drop_last", "drop_first", "swap_ends", "clear", "dup_last", "change_last"}
\* keys the property statement does not speak about for equality (annotations): no verdict demanded
AnnotationKeys == {"documentation", "since", "sinceTags", "proposed", "deprecated", "typeName", "supportsCustomValues"}

(***************************************************************************)
(* What the schema cannot say and the model layer checks on purpose: the   *)
(* values of an enumeration are of its base type.  A grammar edit that     *)
(* breaks this (changing the base under the values, or a value under the   *)
(* base) yields a document for which no verdict is demanded.               *)
(***************************************************************************)
EnumOK(en) == LET want == IF en.f.type.f.name.s = "string" THEN "str" ELSE "int" IN
              \A i \in DOMAIN en.f.values.a : en.f.values.a[i].f.value.k = want
WellFormedDoc(d) == "enumerations" \in DOMAIN d.f => \A i \in DOMAIN d.f.enumerations.a : EnumOK(d.f.enumerations.a[i])

BadKinds == {"missing_required_key", "wrong_json_type", "undeclared_key", "bad_enum_string"}
Targets == {"request", "notification", "structure", "property", "enumeration", "enumItem", "typeAlias", "type", "metaData"}
Plugins == {"python", "rust", "dotnet", "testdata", "probe"}

(***************************************************************************)
(* Generation mode.                                                         *)
(***************************************************************************)
VARIABLES svCase, svL
Cases == {[c |-> "eq", kind |-> k] : k \in StructuralKinds \cup AnnotationKinds \cup {"same", "same_full"}}
         \* the invalid file alone, or first of two files (EVERY model file is validated before anything else happens)
         \cup {[c |-> "gate", kind |-> k, target |-> t, plugin |-> p, position |-> pos] :
                 k \in BadKinds, t \in Targets, p \in Plugins, pos \in {"only", "first", "last"}}
         \cup {[c |-> "eqg", def |-> dn, key |-> ky, op |-> o] : dn \in Defs, ky \in UNION {KeysOf(x) : x \in Defs}, o \in GOps}
         \cup {[c |-> "load", files |-> n] : n \in {"full", "trimmed", "two", "three", "extension", "zoo", "zoo_ascii_locale", "zoo_twice"}}
         \* two loads in one fresh process, the second one started while the first is suspended after its at-th line
         \* of generator/model.py (first-use initialisation inside the model layer is then half done)
         \cup {[c |-> "interleaved", at |-> k] : k \in 1..NInter}
         \* several operations on the SAME in-memory documents in one process: Load; Load; Eq; Load(first only)
         \cup {[c |-> "session", files |-> n] : n \in {"two", "three", "extension", "zoo_twice", "empty_first"}}
Init == svCase \in Cases /\ svL = 0
Next == UNCHANGED <<svCase, svL>>
CaseOK(c) == c.c = "eqg" => c.key \in KeysOf(c.def)
EmitCase == IF CaseOK(svCase) THEN PrintT("@K " \o ToJson(svCase)) ELSE TRUE

(***************************************************************************)
(* Trace mode.                                                              *)
(***************************************************************************)
Trace == JsonDeserialize(IOEnv.MODEL_TRACE)
Zoo == JsonDeserialize(IOEnv.MODEL_ZOO)          \* the base document of every grammar edit

Fails(ev) ==
    CASE ev.e = "Load" ->
            IF ~ev.ok THEN {"L_raise"}
            ELSE IF JEq(Canon(ev.readback), Canon(Merge(ev.docs))) THEN {} ELSE {"L_lossless"}
      [] ev.e = "Eq" ->
            (IF ev.res \notin {"T", "F"} THEN {"E_total"} ELSE {})
            \cup (IF JEq(ev.a, ev.b) /\ ev.res = "F" THEN {"E_same"} ELSE {})
            \cup (IF ev.kind \in StructuralKinds /\ ~JEq(Canon(ev.a), Canon(ev.b)) /\ ev.res = "T" THEN {"E_diff"} ELSE {})
      [] ev.e = "LoadG" ->     \* the edited document loaded on its own and read back
            IF ~WellFormedDoc(ev.b) THEN {}
            ELSE IF ~ev.ok THEN {"L_raise"}
            ELSE IF JEq(Canon(ev.readback), Canon(ev.b)) THEN {} ELSE {"L_lossless"}
      [] ev.e = "EqG" ->       \* zoo == edited / edited == zoo / zoo != edited
            LET differs == ~JEq(Canon(Zoo), Canon(ev.b)) IN
            (IF {ev.ab, ev.ba, ev.ne} \subseteq {"T", "F"} THEN {} ELSE {"E_total"})
            \cup (IF ~differs /\ ("F" \in {ev.ab, ev.ba} \/ ev.ne = "T") THEN {"E_same"} ELSE {})
            \cup (IF differs /\ ev.key \notin AnnotationKeys /\ ("T" \in {ev.ab, ev.ba} \/ ev.ne = "F") THEN {"E_diff"} ELSE {})
            \cup (IF ev.key \in KeysOf(ev.def) THEN {} ELSE {"E_case"})
      [] ev.e = "Gate" ->
            IF ev.schema_invalid
            THEN (IF ev.exit = 0 THEN {"G_exit"} ELSE {})
                 \cup (IF ev.invoked THEN {"G_plugin_ran"} ELSE {})
                 \cup (IF ev.changed THEN {"G_written"} ELSE {})
            ELSE {}
      [] OTHER -> {}

TInit == svL = 1 /\ svCase = 0
Step == /\ svL <= NEvents
        /\ LET f == Fails(Trace[svL]) IN
           IF f = {} THEN TRUE ELSE PrintT("@F " \o ToJson([l |-> svL, c |-> f]))
        /\ svL' = svL + 1
        /\ TLCSet(1, svL)
        /\ UNCHANGED svCase
AllConsumed == TLCGet(1) = NEvents /\ PrintT("@DONE " \o ToString(TLCGet(1)))
=============================================================================
