------------------------------- MODULE LspMeta -------------------------------
(***************************************************************************)
(* The LSP metamodel as TLC constants.                                      *)
(*                                                                          *)
(* MM is the working tree's generator/lsp.json (or the evolved model named  *)
(* by the environment variable LSP_MODEL), read by TLC itself.  Everything  *)
(* downstream (validity, normal forms, expected images of the generated     *)
(* packages) is computed from MM by the operators of this module; there is  *)
(* no translator between the repository's model and the specification.      *)
(***************************************************************************)
EXTENDS Naturals, Integers, Sequences, FiniteSets, TLC, Json, IOUtils

ModelPath == IF "LSP_MODEL" \in DOMAIN IOEnv THEN IOEnv.LSP_MODEL
                                             ELSE "/repo/generator/lsp.json"
MM == JsonDeserialize(ModelPath)

Opt(r, f, d) == IF f \in DOMAIN r THEN r[f] ELSE d
SeqSet(s)    == {s[i] : i \in DOMAIN s}

Structs == Opt(MM, "structures", <<>>)
Enums   == Opt(MM, "enumerations", <<>>)
Aliases == Opt(MM, "typeAliases", <<>>)
Reqs    == Opt(MM, "requests", <<>>)
Notifs  == Opt(MM, "notifications", <<>>)

SName == {Structs[i].name : i \in DOMAIN Structs}
EName == {Enums[i].name : i \in DOMAIN Enums}
AName == {Aliases[i].name : i \in DOMAIN Aliases}
ReqM  == {Reqs[i].method : i \in DOMAIN Reqs}
NotM  == {Notifs[i].method : i \in DOMAIN Notifs}
Methods == ReqM \cup NotM

SDef == [n \in SName |-> Structs[CHOOSE i \in DOMAIN Structs : Structs[i].name = n]]
EDef == [n \in EName |-> Enums[CHOOSE i \in DOMAIN Enums : Enums[i].name = n]]
ADef == [n \in AName |-> Aliases[CHOOSE i \in DOMAIN Aliases : Aliases[i].name = n]]
ReqDef == [m \in ReqM |-> Reqs[CHOOSE i \in DOMAIN Reqs : Reqs[i].method = m]]
NotDef == [m \in NotM |-> Notifs[CHOOSE i \in DOMAIN Notifs : Notifs[i].method = m]]

(***************************************************************************)
(* Inheritance flattening: own properties first, then every extends and    *)
(* mixins parent depth-first in declaration order; the first declaration   *)
(* of a name wins ("nearest wins").                                         *)
(***************************************************************************)
Parents(s) == Opt(s, "extends", <<>>) \o Opt(s, "mixins", <<>>)
MergeProps(ps, qs) == ps \o SelectSeq(qs, LAMBDA q : \A i \in DOMAIN ps : ps[i].name # q.name)

RECURSIVE Flat(_), FoldParents(_, _)
FoldParents(acc, refs) ==
    IF refs = <<>> THEN acc
    ELSE FoldParents(IF Head(refs).kind = "reference" /\ Head(refs).name \in SName
                     THEN MergeProps(acc, Flat(Head(refs).name)) ELSE acc,
                     Tail(refs))
Flat(n) == FoldParents(SDef[n].properties, Parents(SDef[n]))
FlatM == [n \in SName |-> Flat(n)]

RECURSIVE Ancestors(_)
Ancestors(n) == LET ps == {Parents(SDef[n])[i].name : i \in DOMAIN Parents(SDef[n])} \cap SName
                IN ps \cup UNION {Ancestors(p) : p \in ps}

(***************************************************************************)
(* Property classification (the generator's notion, C04 / C10).            *)
(***************************************************************************)
IsNullT(t)  == t.kind = "base" /\ t.name = "null"
OrHasNull(t) == t.kind = "or" /\ \E i \in DOMAIN t.items : IsNullT(t.items[i])
NullAdm(p)  == OrHasNull(p.type)
IsLit(p)    == p.type.kind = "stringLiteral"
Optional(p) == Opt(p, "optional", FALSE)
ForcedReq(p) == Opt(p, "forceRequired", FALSE)      \* synthetic envelope properties only
Special(p)  == ~ForcedReq(p) /\ (NullAdm(p) \/ IsLit(p))
Required(p) == ForcedReq(p) \/ (~Optional(p) /\ ~NullAdm(p) /\ ~IsLit(p))
Omittable(p) == ~Required(p) /\ ~Special(p)

(***************************************************************************)
(* Does a type admit null after alias expansion (LSPAny, ...)?  Used only  *)
(* to SHRINK the set of "remove a required property" deviations (C11) and  *)
(* to tolerate null ~ absent at optional positions.                        *)
(***************************************************************************)
RECURSIVE SemNull(_)
SemNull(t) == CASE t.kind = "base" -> t.name = "null"
                [] t.kind = "reference" -> IF t.name \in AName THEN
                                              (t.name \in {"LSPAny"} \/ SemNull(ADef[t.name].type))
                                           ELSE FALSE
                [] t.kind = "or" -> \E i \in DOMAIN t.items : SemNull(t.items[i])
                [] t.kind = "literal" -> FALSE
                [] OTHER -> FALSE

(***************************************************************************)
(* JSON-RPC envelopes as synthetic structures.                             *)
(***************************************************************************)
BaseT(n)   == [kind |-> "base", name |-> n]
NullT      == BaseT("null")
LitT(s)    == [kind |-> "stringLiteral", value |-> s]
OrT(items) == [kind |-> "or", items |-> items]
ReqIdT     == OrT(<<BaseT("integer"), BaseT("string")>>)
RespIdT    == OrT(<<BaseT("integer"), BaseT("string"), NullT>>)

HasParams(d) == "params" \in DOMAIN d
\* a message that declares no params has no params property at all ("params": null on such a
\* message is a zone the properties are silent about, DESIGN 4.2)
ParamsProp(d) == IF HasParams(d) THEN << [name |-> "params", type |-> d.params] >> ELSE << >>

RequestProps(m) == << [name |-> "id", type |-> ReqIdT] >> \o ParamsProp(ReqDef[m])
                   \o << [name |-> "method", type |-> LitT(m)],
                         [name |-> "jsonrpc", type |-> LitT("2.0")] >>
ResponseProps(m) == << [name |-> "id", type |-> RespIdT, forceRequired |-> TRUE],
                       [name |-> "result", type |-> Opt(ReqDef[m], "result", NullT), alwaysWritten |-> TRUE],
                       [name |-> "jsonrpc", type |-> LitT("2.0")] >>
NotificationProps(m) == ParamsProp(NotDef[m])
                        \o << [name |-> "method", type |-> LitT(m)],
                              [name |-> "jsonrpc", type |-> LitT("2.0")] >>

(***************************************************************************)
(* A class reference is a record [kind, name]:                             *)
(*   structure S | request m | response m | notification m | and m:field   *)
(* PropsOf gives the flattened property list the class must image.         *)
(***************************************************************************)
ClsS(n)   == [kind |-> "structure", name |-> n]
ClsReq(m) == [kind |-> "request", name |-> m]
ClsResp(m) == [kind |-> "response", name |-> m]
ClsNot(m) == [kind |-> "notification", name |-> m]
ClsAnd(m) == [kind |-> "and", name |-> m]          \* the params `and` type of method m
\* an anonymous literal type is its own class: the reference carries the property list
ClsLitOf(t) == [kind |-> "literal", name |-> "(anonymous)", props |-> t.value.properties]

MsgDef(m) == IF m \in ReqM THEN ReqDef[m] ELSE NotDef[m]

RECURSIVE AndProps(_)
AndProps(items) == IF items = <<>> THEN <<>>
                   ELSE (IF Head(items).kind = "reference" /\ Head(items).name \in SName
                         THEN SDef[Head(items).name].properties ELSE <<>>) \o AndProps(Tail(items))

PropsOf(c) == CASE c.kind = "structure"    -> FlatM[c.name]
                [] c.kind = "request"      -> RequestProps(c.name)
                [] c.kind = "response"     -> ResponseProps(c.name)
                [] c.kind = "notification" -> NotificationProps(c.name)
                [] c.kind = "literal"      -> c.props
                [] c.kind = "and"          -> AndProps(MsgDef(c.name).params.items)

\* Special in the envelope sense: a response's result is always written.
AlwaysWritten(p) == Special(p) \/ Opt(p, "alwaysWritten", FALSE)

(***************************************************************************)
(* Open / closed enumerations.  PyOpen adds the documented Python-side     *)
(* customisation (CompletionItemKind accepts custom values).               *)
(***************************************************************************)
OpenMM(e) == Opt(EDef[e], "supportsCustomValues", FALSE)
PyOpen(e) == OpenMM(e) \/ e = "CompletionItemKind"
EnumVals(e) == {EDef[e].values[i].value : i \in DOMAIN EDef[e].values}
EnumBase(e) == EDef[e].type.name

(***************************************************************************)
(* Well-formedness of the model (non-vacuity of everything downstream).    *)
(***************************************************************************)
RECURSIVE RefsOK(_)
RefsOK(t) == CASE t.kind = "reference" -> t.name \in SName \cup EName \cup AName
               [] t.kind = "array" -> RefsOK(t.element)
               [] t.kind = "map" -> RefsOK(t.key) /\ RefsOK(t.value)
               [] t.kind \in {"or", "and", "tuple"} -> \A i \in DOMAIN t.items : RefsOK(t.items[i])
               [] t.kind = "literal" -> \A i \in DOMAIN t.value.properties : RefsOK(t.value.properties[i].type)
               [] OTHER -> TRUE

AllRefsResolve ==
    /\ \A n \in SName : /\ \A i \in DOMAIN SDef[n].properties : RefsOK(SDef[n].properties[i].type)
                        /\ \A i \in DOMAIN Parents(SDef[n]) : RefsOK(Parents(SDef[n])[i])
    /\ \A n \in AName : RefsOK(ADef[n].type)
    /\ \A m \in ReqM : /\ (HasParams(ReqDef[m]) => RefsOK(ReqDef[m].params))
                       /\ RefsOK(Opt(ReqDef[m], "result", NullT))
    /\ \A m \in NotM : HasParams(NotDef[m]) => RefsOK(NotDef[m].params)

NamesUnique == /\ Cardinality(SName) = Len(Structs)
               /\ Cardinality(EName) = Len(Enums)
               /\ Cardinality(AName) = Len(Aliases)
               /\ Cardinality(ReqM) = Len(Reqs)
               /\ Cardinality(NotM) = Len(Notifs)
               /\ SName \cap EName = {} /\ SName \cap AName = {} /\ EName \cap AName = {}
               /\ ReqM \cap NotM = {}

ExtendsAcyclic == \A n \in SName : n \notin Ancestors(n)

Partition == \A n \in SName : \A i \in DOMAIN FlatM[n] :
                LET p == FlatM[n][i] IN
                /\ ~(Required(p) /\ Special(p))
                /\ (Required(p) \/ Special(p) \/ Omittable(p))

PropNamesUnique == \A n \in SName : Cardinality({FlatM[n][i].name : i \in DOMAIN FlatM[n]}) = Len(FlatM[n])

ModelWellFormed == NamesUnique /\ AllRefsResolve /\ ExtendsAcyclic /\ Partition /\ PropNamesUnique
=============================================================================
