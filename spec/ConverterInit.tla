---------------------------- MODULE ConverterInit ----------------------------
(***************************************************************************)
(* ConverterInitCore.tla (the state machine and its properties; kept free  *)
(* of TLC-only modules so that TLAPS can read it, see                       *)
(* ConverterInitProof.tla) plus what only TLC needs: printing every         *)
(* maximal schedule for the harness to force on the real code.              *)
(***************************************************************************)
EXTENDS ConverterInitCore, TLC, Json

CONSTANT EmitHist    \* print maximal histories

EmitSchedule == IF EmitHist /\ Finished THEN PrintT("@H " \o ToJson(svHist)) ELSE TRUE
\* the abstract graph (without the history variable) for counting transitions
AbsView == <<svFlag, svVer, svLock, svPc, svIt, svSeen, svRes>>
=============================================================================
