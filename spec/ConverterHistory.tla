--------------------------- MODULE ConverterHistory ---------------------------
(***************************************************************************)
(* State machine B, second part (C19): converters created one after the    *)
(* other with different configurations, and what each of them returns for  *)
(* a fixed battery of inputs.                                               *)
(*                                                                          *)
(*   Create(conv, cfg)      get_converter() / get_converter(user converter) *)
(*   Probe(conv, input)     structure + unstructure of battery item input   *)
(*                                                                          *)
(* The specification of "independent of creation order, count and          *)
(* configuration" is: there is ONE function memo from inputs to results    *)
(* that every probe of every converter, at every time, agrees with.        *)
(* memo is not logged; the trace spec infers it from the first probe of    *)
(* each input and holds every later probe against it.                      *)
(*                                                                          *)
(* Generation mode: the reachable states are the creation histories up to  *)
(* length MaxLen; every maximal one is printed and executed by the harness *)
(* in a fresh interpreter.  Trace mode: the recorded events of many runs   *)
(* (each run is one "session") are validated.                               *)
(***************************************************************************)
EXTENDS Naturals, Sequences, FiniteSets, TLC, Json, IOUtils

CONSTANTS MaxLen,     \* generation: history length bound
          NRuns,      \* trace: number of runs in the trace file
          NEvents     \* trace: total number of events

Cfgs == {"fresh", "user", "user_nodetail", "same_again"}

VARIABLES svHistory,
          svR,      \* trace: run being replayed
          svL,      \* trace: next event of that run
          svMemo,   \* trace: input -> result, inferred
          svN
tvars == <<svR, svL, svMemo, svN>>

HInit == svHistory = <<>> /\ svR = 0 /\ svL = 0 /\ svMemo = <<>> /\ svN = 0
HNext == /\ Len(svHistory) < MaxLen /\ \E c \in Cfgs : svHistory' = Append(svHistory, c)
         /\ UNCHANGED tvars
EmitHistory == IF Len(svHistory) = MaxLen THEN PrintT("@H " \o ToJson(svHistory)) ELSE TRUE
\* design-level sanity: "same_again" only makes sense after some converter exists; the harness
\* creates a user converter first when the pool is empty, so every history is executable.

(***************************************************************************)
(* Trace mode.                                                              *)
(***************************************************************************)
Runs == JsonDeserialize(IOEnv.CONV_TRACE)

TInit == svR = 1 /\ svL = 1 /\ svMemo = <<>> /\ svN = 0 /\ svHistory = <<>>

Fails(ev) == CASE ev.e = "Create" -> IF ev.ok THEN {} ELSE {"H_create"}
               [] ev.e = "Probe" -> IF ev.input + 1 \in DOMAIN svMemo /\ svMemo[ev.input + 1] # "?"
                                        /\ svMemo[ev.input + 1] # ev.res
                                    THEN {"H_agree"} ELSE {}
               [] OTHER -> {}

\* memo as a sequence indexed by input + 1, "?" = not seen yet in this run
Learn(m, ev) == IF ev.e # "Probe" THEN m
                ELSE LET i == ev.input + 1
                         m2 == IF i <= Len(m) THEN m ELSE m \o [k \in 1..(i - Len(m)) |-> "?"]
                     IN IF m2[i] = "?" THEN [m2 EXCEPT ![i] = ev.res] ELSE m2

TStep == /\ svR <= NRuns
         /\ LET run == Runs[svR]
                ev == run.events[svL]
                f == Fails(ev)
            IN /\ IF f = {} THEN TRUE
                  ELSE PrintT("@F " \o ToJson([run |-> svR, l |-> svL, c |-> f,
                                               expected |-> IF ev.e = "Probe" THEN svMemo[ev.input + 1] ELSE "ok"]))
               /\ IF svL < Len(run.events)
                  THEN svL' = svL + 1 /\ svR' = svR /\ svMemo' = Learn(svMemo, ev)
                  ELSE svL' = 1 /\ svR' = svR + 1 /\ svMemo' = <<>>
         /\ svN' = svN + 1
         /\ TLCSet(1, svN + 1)
         /\ UNCHANGED svHistory
AllConsumed == TLCGet(1) = NEvents /\ PrintT("@DONE " \o ToString(TLCGet(1)))
=============================================================================
