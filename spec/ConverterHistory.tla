--------------------------- MODULE ConverterHistory ---------------------------
(***************************************************************************)
(* State machine B, second part (C19): converters created one after the    *)
(* other with different configurations, and what each of them returns for  *)
(* a fixed battery of inputs.                                               *)
(*                                                                          *)
(*   Create(conv, cfg)      get_converter() / get_converter(user converter) *)
(*   Probe(conv, input)     structure + unstructure of battery item input   *)
(*   Drop                   all converters so far are released              *)
(*                                                                          *)
(* The specification of "independent of creation order, count, threads":   *)
(* what a converter returns depends only on its own configuration class    *)
(* (cc: default, detailed validation off, user hook installed) and the     *)
(* input - there is ONE function memo[cc][input] that every probe of every *)
(* converter, in every run and at every time, agrees with.  memo is not    *)
(* logged; the trace spec infers it from the first probe of each (cc,      *)
(* input) - the single-converter runs come first - and holds every later   *)
(* probe against it.  Successful results must agree across all classes.    *)
(*                                                                          *)
(* Generation mode: the reachable states are the creation histories up to  *)
(* length MaxLen; every maximal one is printed and executed by the harness *)
(* in a fresh interpreter.  Trace mode: the recorded events of many runs   *)
(* (each run is one "session") are validated.                               *)
(***************************************************************************)
EXTENDS Naturals, Sequences, FiniteSets, TLC, Json, IOUtils

CONSTANTS MaxLen,     \* generation: history length bound
          NRuns,      \* trace: number of runs in the trace file
          NEvents     \* trace: total number of events

\* "drop": every converter created so far is released (garbage); what later converters return must not
\* depend on it either - the specification has no notion of object identity or address at all
\* "deep": get_converter() is called with almost no stack left, repeatedly with a little more room; such a call may
\* fail (RecursionError - a fault of the environment, H_create does not apply) but must leave nothing behind
\* "user_omit": the application's converter was built with omit_if_default=True (what the package writes is fixed per attribute)
Cfgs == {"fresh", "user", "user_nodetail", "same_again", "user_hook", "drop", "deep", "user_omit"}

VARIABLES svHistory,
          svR,      \* trace: run being replayed
          svL,      \* trace: next event of that run
          svMemo,   \* trace: input -> result, inferred
          svN
tvars == <<svR, svL, svMemo, svN>>

HInit == svHistory = <<>> /\ svR = 0 /\ svL = 0 /\ svMemo = <<>> /\ svN = 0
HNext == /\ Len(svHistory) < MaxLen /\ \E c \in Cfgs : svHistory' = Append(svHistory, c)
         /\ UNCHANGED tvars
EmitHistory == IF Len(svHistory) = MaxLen THEN PrintT("@H " \o ToJson(svHistory)) ELSE TRUE
\* design-level sanity: "same_again" only makes sense after some converter exists; the harness
\* creates a user converter first when the pool is empty, so every history is executable.

(***************************************************************************)
(* Trace mode.                                                              *)
(***************************************************************************)
Runs == JsonDeserialize(IOEnv.CONV_TRACE)

CCs == {"d", "n", "h"}
TInit == svR = 1 /\ svL = 1 /\ svMemo = [c \in CCs |-> <<>>] /\ svN = 0 /\ svHistory = <<>>

Unknown == [res |-> "?", acc |-> FALSE]
Known(cc, i) == i \in DOMAIN svMemo[cc] /\ svMemo[cc][i].res # "?"
Fails(ev) == CASE ev.e = "Create" -> IF ev.ok \/ ("env_fault" \in DOMAIN ev /\ ev.env_fault) THEN {} ELSE {"H_create"}
               [] ev.e = "Probe" -> LET i == ev.input + 1 IN
                                    (IF Known(ev.cc, i) /\ svMemo[ev.cc][i].res # ev.res THEN {"H_agree"} ELSE {})
                                    \* whether an input is accepted never depends on the configuration
                                    \cup (IF \E c2 \in CCs \ {ev.cc, "h"} :
                                               ev.cc # "h" /\ Known(c2, i) /\ svMemo[c2][i].acc # ev.acc
                                          THEN {"H_accept"} ELSE {})
               [] OTHER -> {}

\* memo as a sequence indexed by input + 1, "?" = not seen yet in this run
Learn1(m, i, r) == LET m2 == IF i <= Len(m) THEN m ELSE m \o [k \in 1..(i - Len(m)) |-> Unknown]
                   IN IF m2[i].res = "?" THEN [m2 EXCEPT ![i] = r] ELSE m2
Learn(m, ev) == IF ev.e # "Probe" THEN m
                ELSE [m EXCEPT ![ev.cc] = Learn1(m[ev.cc], ev.input + 1, [res |-> ev.res, acc |-> ev.acc])]

TStep == /\ svR <= NRuns
         /\ LET run == Runs[svR]
                ev == run.events[svL]
                f == Fails(ev)
            IN /\ IF f = {} THEN TRUE
                  ELSE PrintT("@F " \o ToJson([run |-> svR, l |-> svL, c |-> f,
                                               expected |-> IF ev.e = "Probe" /\ Known(ev.cc, ev.input + 1)
                                                            THEN svMemo[ev.cc][ev.input + 1].res ELSE "ok"]))
               /\ IF svL < Len(run.events)
                  THEN svL' = svL + 1 /\ svR' = svR /\ svMemo' = Learn(svMemo, ev)
                  ELSE svL' = 1 /\ svR' = svR + 1 /\ svMemo' = Learn(svMemo, ev)
         /\ svN' = svN + 1
         /\ TLCSet(1, svN + 1)
         /\ UNCHANGED svHistory
AllConsumed == TLCGet(1) = NEvents /\ PrintT("@DONE " \o ToString(TLCGet(1)))
=============================================================================
