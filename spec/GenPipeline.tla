----------------------------- MODULE GenPipeline -----------------------------
(***************************************************************************)
(* State machine C: `python -m generator` as a function from model files   *)
(* to the files a plugin owns (C16), and the committed packages as a fixed *)
(* point of that function (C05).                                            *)
(*                                                                          *)
(* One run of the CLI, following generator/__main__.py:main, is             *)
(*   ParseArgs -> ValidateNext for EVERY model file in order -> CreateModel *)
(*   ->                                                                     *)
(*   ImportPlugin -> Cleanup (plugins that own a set of files) -> Write     *)
(* and ends in Done or Failed.  The environment may PlaceStale files into   *)
(* an output directory between runs.  The design-level part (variables      *)
(* svFs, svPhase) is model-checked for: a failed validation never reaches   *)
(* ImportPlugin; after Done the owned files are exactly gen(plugin, model)  *)
(* whatever the directory held before.  NoCleanup = TRUE removes the        *)
(* Cleanup action and TLC must then find the stale-file counterexample      *)
(* (non-vacuity).                                                           *)
(*                                                                          *)
(* Histories (sequences of Run / PlaceStale) are the behaviours the harness *)
(* executes for real; the recorded snapshots are validated in trace mode:   *)
(* there must be ONE function gen(plugin, model) that explains every        *)
(* snapshot after every successful run - gen is inferred, not logged.       *)
(***************************************************************************)
EXTENDS Naturals, Sequences, FiniteSets, TLC, Json, IOUtils

CONSTANTS MaxLen,       \* generation: bound on the history length
          NoCleanup,    \* design sanity: drop the Cleanup action
          LastOnly,     \* design sanity: validate only the last model file (the slip of a dedented loop body)
          NEvents       \* trace mode: number of recorded events

Plugins == {"python", "rust", "dotnet", "testdata"}
Models  == {"A", "B", "C"}          \* C is a LIST of two model files (the committed model and an extension)
\* the process: PYTHONHASHSEED 0 / 1 / random, python -O with a random seed, or a process whose locale encoding is ASCII
Seeds   == {"0", "1", "r", "O", "L"}
\* plugins that own a SET of files (glob-deleted before writing); the others own fixed paths
SetOwners == {"dotnet", "testdata"}

(***************************************************************************)
(* Design level: one output directory, files are "gen:<model>" or "stale".  *)
(***************************************************************************)
VARIABLES svPlugin,   \* the plugin this behaviour is about
          svFs,       \* set of [name, content] in the owned part of the output directory
          svPhase,    \* "idle" | "validated" | "modelled" | "imported" | "cleaned" | "failed"
          svModel,    \* model of the current run
          svValid,    \* per model file of the current run: does it pass schema validation
          svVi,       \* number of model files validated so far
          svHist      \* history so far (sequence of action records)
dvars == <<svPlugin, svFs, svPhase, svModel, svValid, svVi, svHist>>

\* the abstract image: model A yields files {f1, f2}, model B yields {f1, f3} with other content
GenFiles(p, m) == IF p \in SetOwners
                  THEN (IF m = "A" THEN {[name |-> "f1", content |-> "A"], [name |-> "f2", content |-> "A"]}
                        ELSE IF m = "B" THEN {[name |-> "f1", content |-> "B"], [name |-> "f3", content |-> "B"]}
                        ELSE {[name |-> "f1", content |-> "C"], [name |-> "f2", content |-> "C"], [name |-> "f4", content |-> "C"]})
                  ELSE {[name |-> "main", content |-> m]}

DInit == /\ svPlugin \in Plugins /\ svFs = {} /\ svPhase = "idle" /\ svModel = "A" /\ svValid = <<TRUE>> /\ svVi = 0 /\ svHist = <<>>
\* a run is given one model file, or (model C) a list of two; any of them may violate the schema
FileValidity(m, valid) == IF m = "C" THEN {<<a, b>> : a, b \in BOOLEAN} \cap {v \in {<<a, b>> : a, b \in BOOLEAN} : (v[1] /\ v[2]) = valid}
                          ELSE {<<valid>>}
AllValid(v) == \A i \in DOMAIN v : v[i]

Start(m, valid, seed) ==
    /\ svPhase \in {"idle", "failed"} /\ Len(svHist) < MaxLen
    /\ svModel' = m /\ svValid' \in FileValidity(m, valid) /\ svVi' = 0
    /\ svPhase' = "validating"
    /\ svHist' = Append(svHist, [a |-> "Run", model |-> m, seed |-> seed, valid |-> valid])
    /\ UNCHANGED <<svPlugin, svFs>>
\* main(): for model_file in model_files: json.load; jsonschema.validate  (raises on the first invalid file)
ValidateNext ==
    /\ svPhase = "validating" /\ svVi < Len(svValid)
    /\ LET i == svVi + 1  checked == ~LastOnly \/ i = Len(svValid) IN
       IF checked /\ ~svValid[i] THEN svPhase' = "failed" /\ svVi' = svVi
       ELSE svVi' = i /\ svPhase' = (IF i = Len(svValid) THEN "validated" ELSE "validating")
    /\ UNCHANGED <<svPlugin, svFs, svModel, svValid, svHist>>
CreateModel == svPhase = "validated" /\ svPhase' = "modelled" /\ UNCHANGED <<svPlugin, svFs, svModel, svValid, svVi, svHist>>
ImportPlugin == svPhase = "modelled" /\ svPhase' = "imported" /\ UNCHANGED <<svPlugin, svFs, svModel, svValid, svVi, svHist>>
Cleanup == /\ svPhase = "imported" /\ ~NoCleanup
           /\ svFs' = IF svPlugin \in SetOwners THEN {} ELSE svFs
           /\ svPhase' = "cleaned"
           /\ UNCHANGED <<svPlugin, svModel, svValid, svVi, svHist>>
Write == /\ svPhase = (IF NoCleanup THEN "imported" ELSE "cleaned")
         /\ svFs' = {f \in svFs : \A g \in GenFiles(svPlugin, svModel) : g.name # f.name} \cup GenFiles(svPlugin, svModel)
         /\ svPhase' = "idle"
         /\ UNCHANGED <<svPlugin, svModel, svValid, svVi, svHist>>
PlaceStale == /\ svPhase = "idle" /\ Len(svHist) < MaxLen
              /\ svFs' = svFs \cup {[name |-> IF svPlugin \in SetOwners THEN "stale" ELSE "main", content |-> "stale"]}
              /\ svFs' # svFs
              \* how: other bytes under an owned name / the very text the plugin wrote, with Windows line endings
              /\ \E h \in {"bytes", "crlf"} : svHist' = Append(svHist, [a |-> "Stale", how |-> h])
              /\ UNCHANGED <<svPlugin, svPhase, svModel, svValid, svVi>>
\* "regardless of ... process": the whole history may also happen inside ONE interpreter (generator.__main__.main called
\* again and again), where module-level state of the generator survives from run to run.  It is a choice made before
\* the first run; the file system model is the same - which is the point.
OneInterpreter == /\ svPhase = "idle" /\ svHist = <<>> /\ 1 < MaxLen
                  /\ svHist' = <<[a |-> "OneInterpreter"]>>
                  /\ UNCHANGED <<svPlugin, svFs, svPhase, svModel, svValid, svVi>>
DNext == \/ \E m \in Models, v \in BOOLEAN, s \in Seeds : Start(m, v, s)
         \/ OneInterpreter
         \/ ValidateNext \/ CreateModel \/ ImportPlugin \/ Cleanup \/ Write \/ PlaceStale

\* after a completed run the owned files are exactly the image of the model
LastRun == LET idx == {i \in DOMAIN svHist : svHist[i].a = "Run"} IN
           IF idx = {} THEN 0 ELSE CHOOSE i \in idx : \A k \in idx : k <= i
OutputIsFunctionOfModel ==
    (svPhase = "idle" /\ LastRun # 0 /\ LastRun = Len(svHist) /\ svHist[LastRun].valid)
        => svFs = GenFiles(svPlugin, svHist[LastRun].model)
InvalidWritesNothing == svPhase = "failed" => TRUE      \* by construction no action is enabled that writes; see PhaseOrder
PhaseOrder == svPhase \in {"modelled", "imported", "cleaned"} => AllValid(svValid)
EmitHistory == IF svPhase \in {"idle", "failed"} /\ Len(svHist) = MaxLen
               THEN PrintT("@H " \o ToJson([plugin |-> svPlugin, hist |-> svHist])) ELSE TRUE
HistView == <<svPlugin, svHist, svPhase>>

(***************************************************************************)
(* Trace mode.                                                              *)
(*   Run   {plugin, model, seed, exit, digest, n, stale_left, uuid, valid}  *)
(*   Stale {plugin}                                                         *)
(*   OneInterpreter {plugin}   the following runs share one interpreter     *)
(*   FixedPoint {plugin, gen: <<item hashes>>, committed: <<item hashes>>}  *)
(* Each trace is one history in one pair of scratch directories.            *)
(***************************************************************************)
Runs == JsonDeserialize(IOEnv.GEN_TRACE)

VARIABLES svR, svL, svGen, svN
tvars == <<svR, svL, svGen, svN>>
Key(ev) == ev.plugin \o "/" \o ev.model
GInit == DInit /\ svR = 0 /\ svL = 0 /\ svGen = <<>> /\ svN = 0
GNext == DNext /\ UNCHANGED tvars
TInit == /\ svR = 1 /\ svL = 1 /\ svGen = [k \in {} |-> ""] /\ svN = 0
         /\ svPlugin = "" /\ svFs = {} /\ svPhase = "" /\ svModel = "" /\ svValid = <<TRUE>> /\ svVi = 0 /\ svHist = <<>>

FirstDiff(a, b) == IF \E i \in DOMAIN a : i \notin DOMAIN b \/ a[i] # b[i]
                   THEN CHOOSE i \in DOMAIN a : (i \notin DOMAIN b \/ a[i] # b[i]) /\ \A k \in 1..(i - 1) : k \in DOMAIN b /\ a[k] = b[k]
                   ELSE IF Len(b) > Len(a) THEN Len(a) + 1 ELSE 0

Fails(ev) ==
    CASE ev.e = "Run" ->
            IF ev.valid
            THEN (IF ev.exit # 0 THEN {"R_exit"} ELSE {})
                 \cup (IF ev.exit = 0 /\ Key(ev) \in DOMAIN svGen /\ svGen[Key(ev)] # ev.digest THEN {"R_function"} ELSE {})
                 \cup (IF ev.exit = 0 /\ ev.stale_left # <<>> THEN {"R_stale"} ELSE {})
                 \cup (IF ev.uuid THEN {"R_uuid"} ELSE {})
            ELSE (IF ev.exit = 0 THEN {"R_invalid_accepted"} ELSE {})
                 \cup (IF ev.changed THEN {"R_invalid_wrote"} ELSE {})
      [] ev.e = "FixedPoint" -> IF FirstDiff(ev.gen, ev.committed) = 0 THEN {} ELSE {"F_differs"}
      [] OTHER -> {}

TStep == /\ svR <= Len(Runs)
         /\ LET run == Runs[svR]
                ev == run[svL]
                f == Fails(ev)
            IN /\ IF f = {} THEN TRUE
                  ELSE PrintT("@F " \o ToJson([run |-> svR, l |-> svL, c |-> f,
                                               at |-> IF ev.e = "FixedPoint" THEN FirstDiff(ev.gen, ev.committed) ELSE 0]))
               /\ svGen' = IF ev.e = "Run" /\ ev.valid /\ ev.exit = 0 /\ Key(ev) \notin DOMAIN svGen
                           THEN (Key(ev) :> ev.digest) @@ svGen ELSE svGen
               /\ IF svL < Len(run) THEN svL' = svL + 1 /\ svR' = svR ELSE svL' = 1 /\ svR' = svR + 1
         /\ svN' = svN + 1
         /\ TLCSet(1, svN + 1)
         /\ UNCHANGED <<svPlugin, svFs, svPhase, svModel, svValid, svVi, svHist>>
AllConsumed == TLCGet(1) = NEvents /\ PrintT("@DONE " \o ToString(TLCGet(1)))
=============================================================================
