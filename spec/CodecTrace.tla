----------------------------- MODULE CodecTrace -----------------------------
(***************************************************************************)
(* State machine A, implementation side: a codec session is a sequence of  *)
(* public calls on the real package                                         *)
(*     Construct(o)  Structure(j, T)  Unstructure                           *)
(* each logged at its return with everything it returned.  This module      *)
(* replays recorded sessions (thousands per TLC run) and evaluates, at      *)
(* every event, every clause of the codec properties.  Verdicts are total:  *)
(* a failing clause does not disable the action, it is printed as           *)
(*     @F {sid, l, c: clause names, pos: failing positions}                 *)
(* and the rest of the session is still checked.                            *)
(*                                                                          *)
(* Clause -> property (the wrapper applies this table):                     *)
(*   S_ok       valid input was rejected                C01 C14 C15 C10 C12 *)
(*   S_reject   a listed single-field deviation was accepted       C11 C13 *)
(*   S_typed    result is not well typed at some depth             C03 C14 *)
(*   U_lossless parse then re-serialise lost / changed something       C01 *)
(*   U_exact    constructor path output is not the normal form         C02 *)
(*   U_keys     ... and differs in which keys are present              C10 *)
(*   U_idem     structuring the output and serialising again differs   C02 *)
(*   U_raise    unstructure raised                                 C01 C02 *)
(*   X_same     unknown keys changed the result / its re-serialisation C15 *)
(*   K_ok / K_reject  constructor verdict differs from the range       C12 *)
(***************************************************************************)
EXTENDS LspValue

CONSTANTS NSess,      \* number of sessions in the trace file
          NEvents     \* total number of events (for the acceptance postcondition)

Trace == JsonDeserialize(IOEnv.CODEC_TRACE)
Norm  == Trace.norm
Sess  == Trace.sessions

(***************************************************************************)
(* Projections of Python object graphs:                                     *)
(*   none | bool b | int i | big g | float x | str s | enum cls e          *)
(*   inst cls p (keys: normalised attribute names) | arr a | tup a | map f *)
(*   opaque s                                                               *)
(***************************************************************************)
RECURSIVE PEq(_, _)
PEq(a, b) == /\ a.k = b.k
             /\ CASE a.k = "none" -> TRUE
                  [] a.k = "bool" -> a.b = b.b
                  [] a.k = "int" -> a.i = b.i
                  [] a.k = "big" -> a.g = b.g
                  [] a.k = "float" -> a.x = b.x
                  [] a.k = "str" -> a.s = b.s
                  [] a.k = "opaque" -> a.s = b.s
                  [] a.k = "enum" -> a.cls = b.cls /\ JEq(a.e, b.e)
                  [] a.k = "inst" -> a.cls = b.cls /\ DOMAIN a.p = DOMAIN b.p
                                     /\ \A n \in DOMAIN a.p : PEq(a.p[n], b.p[n])
                  [] a.k \in {"arr", "tup"} -> Len(a.a) = Len(b.a) /\ \A i \in DOMAIN a.a : PEq(a.a[i], b.a[i])
                  [] a.k = "map" -> DOMAIN a.f = DOMAIN b.f /\ \A key \in DOMAIN a.f : PEq(a.f[key], b.f[key])
                  [] OTHER -> FALSE

\* uninterpreted JSON as Python holds it (only LSPAny / LSPObject / LSPArray positions may)
RECURSIVE Raw(_)
Raw(p) == \/ p.k \in {"none", "bool", "int", "big", "float", "str"}
          \/ p.k \in {"arr", "tup"} /\ \A i \in DOMAIN p.a : Raw(p.a[i])
          \/ p.k = "map" /\ \A key \in DOMAIN p.f : Raw(p.f[key])

WTBase(p, b) == CASE b \in StringBases -> p.k = "str"
                  [] b \in {"integer", "uinteger"} -> p.k \in {"int", "big"}
                  [] b = "decimal" -> p.k \in {"float", "int", "big"}
                  [] b = "boolean" -> p.k = "bool"
                  [] b = "null" -> p.k = "none"
                  [] OTHER -> FALSE

\* a member of E, or a primitive equal to one (any base value when E is open)
WTEnum(p, e) == \/ p.k = "enum" /\ p.cls = e /\ ValidEnum(p.e, e, FALSE)
                \/ p.k \in {"str", "int", "big"} /\ ValidEnum(p, e, PyOpen(e))

(***************************************************************************)
(* WT(p, t, j): the projection p of what structuring returned for input j  *)
(* is a well-typed value of type t, at every depth (C03).                  *)
(***************************************************************************)
RECURSIVE WT(_, _, _)
WTProps(p, props, j, clsOK) ==
    /\ p.k = "inst" /\ clsOK /\ j.k = "obj"
    /\ \A i \in DOMAIN props : LET pr == props[i]  key == Norm[pr.name] IN
          /\ key \in DOMAIN p.p
          /\ IF pr.name \in DOMAIN j.f
             THEN IF p.p[key].k = "none" THEN j.f[pr.name].k = "null"
                  ELSE WT(p.p[key], pr.type, j.f[pr.name])
             ELSE \/ p.p[key].k = "none"
                  \/ IsLit(pr) /\ p.p[key].k = "str" /\ p.p[key].s = pr.type.value
WT(p, t, j) ==
    CASE t.kind = "base" -> WTBase(p, t.name)
      [] t.kind = "cls" -> WTProps(p, PropsOf(t.cls), j, TRUE)
      [] t.kind = "reference" ->
            IF t.name \in SName THEN WTProps(p, FlatM[t.name], j, p.k = "inst" /\ p.cls = t.name)
            ELSE IF t.name \in EName THEN WTEnum(p, t.name)
            ELSE IF t.name = "LSPAny" THEN Raw(p)
            ELSE WT(p, ADef[t.name].type, j)
      [] t.kind = "array" -> /\ p.k \in {"arr", "tup"} /\ j.k = "arr" /\ Len(p.a) = Len(j.a)
                             /\ \A i \in DOMAIN p.a : WT(p.a[i], t.element, j.a[i])
      [] t.kind = "map" -> /\ p.k = "map" /\ j.k = "obj" /\ DOMAIN p.f = DOMAIN j.f
                           /\ \A key \in DOMAIN p.f : WT(p.f[key], t.value, j.f[key])
      [] t.kind = "or" -> \E i \in DOMAIN t.items : Valid(j, t.items[i]) /\ WT(p, t.items[i], j)
      [] t.kind = "tuple" -> /\ p.k = "tup" /\ j.k = "arr" /\ Len(p.a) = Len(t.items) /\ Len(j.a) = Len(t.items)
                             /\ \A i \in DOMAIN t.items : WT(p.a[i], t.items[i], j.a[i])
      [] t.kind = "literal" -> IF t.value.properties = <<>> THEN Raw(p)
                               ELSE WTProps(p, t.value.properties, j, TRUE)
      [] t.kind = "stringLiteral" -> p.k = "str" /\ p.s = t.value
      [] t.kind = "and" -> WTProps(p, AndProps(t.items), j, TRUE)
      [] OTHER -> FALSE

\* top level: the result is an instance of the requested class
WTTop(p, root, j, reqcls) ==
    /\ (root.kind # "alias" => p.k = "inst" /\ p.cls = reqcls)
    /\ (root.kind = "structure" => reqcls = root.name)
    /\ WT(p, RootType(root), j)

(***************************************************************************)
(* Failing positions, for signatures: the innermost declared positions at  *)
(* which w fails to be an admissible re-serialisation of j (mirrors RT).   *)
(***************************************************************************)
\* does a type mention an enumeration (directly, in a container, union or alias)?
RECURSIVE MentionsEnum(_)
MentionsEnum(t) == CASE t.kind = "reference" -> t.name \in EName \/ (t.name \in AName /\ t.name # "LSPAny" /\ MentionsEnum(ADef[t.name].type))
                     [] t.kind = "array" -> MentionsEnum(t.element)
                     [] t.kind = "map" -> MentionsEnum(t.value)
                     [] t.kind = "or" -> \E i \in DOMAIN t.items : MentionsEnum(t.items[i])
                     [] OTHER -> FALSE
EnumTag(t) == IF MentionsEnum(t) THEN "|enum" ELSE ""

RECURSIVE Bad(_, _, _, _)
BadProps(j, w, props, owner) ==
    IF j.k # "obj" \/ w.k # "obj" THEN {owner \o "|shape"}
    ELSE (UNION { IF key \in DOMAIN w.f
                  THEN (IF HasProp(props, key)
                        THEN Bad(j.f[key], w.f[key], PropNamed(props, key).type, owner \o "." \o key)
                        ELSE {owner \o "." \o key \o "|echoed"})
                  ELSE (IF ~HasProp(props, key) THEN {}
                        ELSE {owner \o "." \o key \o "|lost" \o EnumTag(PropNamed(props, key).type)})
                : key \in DOMAIN j.f })
         \cup { owner \o "." \o key \o "|added" :
                key \in {k2 \in DOMAIN w.f \ DOMAIN j.f :
                           ~(/\ HasProp(props, k2) /\ AlwaysWritten(PropNamed(props, k2))
                             /\ JEq(w.f[k2], DefaultWire(PropNamed(props, k2))))} }
Bad(j, w, t, pos) ==
    IF RT(j, w, t) THEN {}
    ELSE CASE t.kind = "cls" -> BadProps(j, w, PropsOf(t.cls), pos)
           [] t.kind = "reference" /\ t.name \in SName ->
                 IF j.k # "obj" \/ w.k # "obj" THEN {pos \o "|shape"} ELSE BadProps(j, w, FlatM[t.name], t.name)
           [] t.kind = "reference" /\ t.name \in AName /\ t.name # "LSPAny" -> Bad(j, w, ADef[t.name].type, pos)
           [] t.kind = "reference" /\ t.name \in EName -> {pos \o "|enum"}
           [] t.kind = "array" ->
                 IF j.k # "arr" \/ w.k # "arr" \/ Len(j.a) # Len(w.a) THEN {pos \o "|shape"}
                 ELSE UNION {Bad(j.a[i], w.a[i], t.element, pos \o "[]") : i \in DOMAIN j.a}
           [] t.kind = "map" ->
                 IF j.k # "obj" \/ w.k # "obj" \/ DOMAIN j.f # DOMAIN w.f THEN {pos \o "|shape"}
                 ELSE UNION {Bad(j.f[key], w.f[key], t.value, pos \o "{}") : key \in DOMAIN j.f}
           [] t.kind = "or" ->
                 LET valid == {i \in DOMAIN t.items : Valid(j, t.items[i])} IN
                 IF Cardinality(valid) = 1
                 THEN LET inner == Bad(j, w, t.items[CHOOSE i \in valid : TRUE], pos) IN
                      IF inner = {} THEN {pos \o "|union"} ELSE inner
                 ELSE {pos \o "|union"}
           [] t.kind = "tuple" ->
                 IF j.k # "arr" \/ w.k # "arr" \/ Len(j.a) # Len(w.a) \/ Len(j.a) # Len(t.items) THEN {pos \o "|shape"}
                 ELSE UNION {Bad(j.a[i], w.a[i], t.items[i], pos \o "()") : i \in DOMAIN j.a}
           [] t.kind = "and" -> BadProps(j, w, AndProps(t.items), pos)
           [] OTHER -> {pos \o "|value"}

\* the same for well-typedness
RECURSIVE BadWT(_, _, _, _)
BadWTProps(p, props, j, clsOK, owner) ==
    IF p.k # "inst" \/ ~clsOK \/ j.k # "obj" THEN {owner \o "|class"}
    ELSE UNION { LET pr == props[i]  key == Norm[pr.name] IN
                 IF key \notin DOMAIN p.p THEN {owner \o "." \o pr.name \o "|noattr"}
                 ELSE IF pr.name \in DOMAIN j.f
                      THEN (IF p.p[key].k = "none"
                            THEN (IF j.f[pr.name].k = "null" THEN {} ELSE {owner \o "." \o pr.name \o "|none" \o EnumTag(pr.type)})
                            ELSE BadWT(p.p[key], pr.type, j.f[pr.name], owner \o "." \o pr.name))
                      ELSE (IF \/ p.p[key].k = "none"
                               \/ IsLit(pr) /\ p.p[key].k = "str" /\ p.p[key].s = pr.type.value
                            THEN {} ELSE {owner \o "." \o pr.name \o "|default"})
               : i \in DOMAIN props }
BadWT(p, t, j, pos) ==
    IF WT(p, t, j) THEN {}
    ELSE CASE t.kind = "cls" -> BadWTProps(p, PropsOf(t.cls), j, TRUE, pos)
           [] t.kind = "reference" /\ t.name \in SName ->
                 IF p.k # "inst" \/ p.cls # t.name \/ j.k # "obj" THEN {pos \o "|class"}
                 ELSE BadWTProps(p, FlatM[t.name], j, TRUE, t.name)
           [] t.kind = "reference" /\ t.name \in AName /\ t.name # "LSPAny" -> BadWT(p, ADef[t.name].type, j, pos)
           [] t.kind = "reference" /\ t.name \in EName -> {pos \o "|enum"}
           [] t.kind = "array" ->
                 IF p.k \notin {"arr", "tup"} \/ j.k # "arr" \/ Len(p.a) # Len(j.a) THEN {pos \o "|shape"}
                 ELSE UNION {BadWT(p.a[i], t.element, j.a[i], pos \o "[]") : i \in DOMAIN p.a}
           [] t.kind = "map" ->
                 IF p.k # "map" \/ j.k # "obj" \/ DOMAIN p.f # DOMAIN j.f THEN {pos \o "|shape"}
                 ELSE UNION {BadWT(p.f[key], t.value, j.f[key], pos \o "{}") : key \in DOMAIN p.f}
           [] t.kind = "or" ->
                 LET valid == {i \in DOMAIN t.items : Valid(j, t.items[i])} IN
                 IF Cardinality(valid) = 1
                 THEN LET inner == BadWT(p, t.items[CHOOSE i \in valid : TRUE], j, pos) IN
                      IF inner = {} THEN {pos \o "|union"} ELSE inner
                 ELSE {pos \o "|union"}
           [] OTHER -> {pos \o "|type"}

\* key sets agree at every object node (C10: which keys are written)
RECURSIVE KeysEq(_, _)
KeysEq(a, b) == IF a.k = "obj" /\ b.k = "obj"
                THEN DOMAIN a.f = DOMAIN b.f /\ \A key \in DOMAIN a.f : KeysEq(a.f[key], b.f[key])
                ELSE IF a.k = "arr" /\ b.k = "arr" /\ Len(a.a) = Len(b.a)
                THEN \A i \in DOMAIN a.a : KeysEq(a.a[i], b.a[i])
                ELSE TRUE

(***************************************************************************)
(* The session state machine.                                               *)
(***************************************************************************)
VARIABLES svS,    \* index of the session being replayed
          svL,    \* index of the next event of that session
          svN     \* events consumed so far
tvars == <<svS, svL, svN>>

DevKinds == {"dropreq", "intval", "enum", "lit", "nested"}
RootName(r) == r.kind \o ":" \o r.name

\* Structure(j, T) returned
StructureClauses(s, l) ==
    LET ev == s.ev[l]
        T == RootType(s.root)
        valid == Valid(ev.j, T) /\ (s.sk = "observed" => Closed(ev.j, T))
    IN (IF valid /\ ~ev.ok THEN {"S_ok"} ELSE {})
       \cup (IF ~valid /\ ev.ok /\ s.sk \in DevKinds THEN {"S_reject"} ELSE {})
       \cup (IF valid /\ ev.ok /\ ~WTTop(ev.p, s.root, ev.j, ev.reqcls) THEN {"S_typed"} ELSE {})
       \cup (IF s.sk = "unk" /\ l = 3 /\ ev.ok /\ ~PEq(ev.p, s.ev[1].p) THEN {"X_same"} ELSE {})

\* Sessions observed in the repository's own test-suite (sk = "observed") carry inputs the
\* specification did not generate: an explicit null whose key the output omits is tolerated there
\* (null ~ absent at omittable positions, DESIGN 4.2).
RECURSIVE DropNulls(_, _)
DropNulls(j, w) ==
    CASE j.k = "obj" /\ w.k = "obj" ->
            JObj([n \in {n \in DOMAIN j.f : ~(j.f[n].k = "null" /\ n \notin DOMAIN w.f)} |->
                    IF n \in DOMAIN w.f THEN DropNulls(j.f[n], w.f[n]) ELSE j.f[n]])
      [] j.k = "arr" /\ w.k = "arr" /\ Len(j.a) = Len(w.a) -> JArr([i \in DOMAIN j.a |-> DropNulls(j.a[i], w.a[i])])
      [] OTHER -> j

\* Unstructure returned
UnstructureClauses(s, l) ==
    LET ev == s.ev[l]
        prev == s.ev[l - 1]
        T == RootType(s.root)
    IN IF ~ev.ok THEN {"U_raise"}
       ELSE IF l = 2 /\ prev.e = "Structure" /\ s.sk = "observed"
            THEN (IF ~(Valid(prev.j, T) /\ Closed(prev.j, T)) THEN {}
                  ELSE LET src == DropNulls(prev.j, ev.w) IN
                       IF Lossless(src, ev.w) /\ RT(src, ev.w, T) THEN {} ELSE {"U_lossless"})
       ELSE IF l = 2 /\ prev.e = "Structure"
            THEN (IF Lossless(prev.j, ev.w) /\ RT(prev.j, ev.w, T) THEN {} ELSE {"U_lossless"})
       ELSE IF l = 2 /\ prev.e = "Construct"
            THEN (IF JEq(ev.w, Wire(prev.o)) THEN {}
                  ELSE IF KeysEq(ev.w, Wire(prev.o)) THEN {"U_exact"} ELSE {"U_exact", "U_keys"})
       ELSE IF l = 4 /\ s.sk = "reparse"      \* Structure(j) . Scramble(that object) . Structure(j) . Unstructure: parsed objects share nothing
            THEN (IF Lossless(prev.j, ev.w) /\ RT(prev.j, ev.w, T) THEN {} ELSE {"U_lossless"})
       ELSE IF l = 4 /\ s.sk = "reunstructure"   \* Construct(o, equal sub-objects shared) . Unstructure . Scramble(the returned JSON) . Unstructure
            THEN (IF JEq(ev.w, Wire(s.ev[1].o)) THEN {}
                  ELSE IF KeysEq(ev.w, Wire(s.ev[1].o)) THEN {"U_exact"} ELSE {"U_exact", "U_keys"})
       ELSE IF l = 4 /\ s.sk = "mutate"       \* Construct(o) . Unstructure . Assign(-> o2) . Unstructure: the object's CURRENT state is written
            THEN (IF JEq(ev.w, Wire(s.ev[3].o)) THEN {}
                  ELSE IF KeysEq(ev.w, Wire(s.ev[3].o)) THEN {"U_exact"} ELSE {"U_exact", "U_keys"})
       ELSE IF l = 4
            THEN (IF JEq(ev.w, s.ev[2].w) THEN {} ELSE IF s.sk = "unk" THEN {"X_same"} ELSE {"U_idem"})
       ELSE {}

\* a class constructor returned
ConstructClauses(s, l) ==
    LET ev == s.ev[l]
        T == RootType(s.root)
        valid == Valid(Wire(ev.o), T)
    IN (IF valid /\ ~ev.ok THEN {"K_ok"} ELSE {})
       \cup (IF ~valid /\ ev.ok /\ s.sk \in {"intval", "lit"} THEN {"K_reject"} ELSE {})

\* a range validator was called directly: validators.integer_validator(instance, attribute, value)
\*   pyk: Python kind of the argument, n: its integer value as a node (int-like arguments only)
\*   res: "true" | "valueerror" | "false" | "other:<exception>", named: the message contains Class.attr
ValidateClauses(s, l) ==
    LET ev == s.ev[l]
        kind == IF ev.fn = "uinteger_validator" THEN "uinteger" ELSE "integer"
    IN (IF ev.res \in {"true", "valueerror"} THEN {} ELSE {"V_total"})
       \cup (IF ev.res = "valueerror" /\ ~ev.named THEN {"V_named"} ELSE {})
       \cup (IF ev.pyk \in {"int", "intsub"} /\ ev.res \in {"true", "valueerror"} /\ (ev.res = "true") # InRange(kind, ev.n)
             THEN {"V_range"} ELSE {})

\* an attribute of a live object was assigned; ev.o is the abstract object afterwards
\* (a valid one in `mutate` sessions; in `lit` sessions the attribute is given a string other than its literal)
AssignClauses(s, l) == LET ev == s.ev[l]  valid == Valid(Wire(ev.o), RootType(s.root)) IN
                       (IF valid /\ ~ev.ok THEN {"K_ok"} ELSE {})
                       \cup (IF ~valid /\ ev.ok THEN {"K_reject"} ELSE {})

Clauses(s, l) == CASE s.ev[l].e = "Structure" -> StructureClauses(s, l)
                   [] s.ev[l].e = "Assign" -> AssignClauses(s, l)
                   [] s.ev[l].e = "Scramble" -> {}          \* the harness destroyed the first parsed object in place
                   [] s.ev[l].e = "Validate" -> ValidateClauses(s, l)
                   [] s.ev[l].e = "Unstructure" -> UnstructureClauses(s, l)
                   [] s.ev[l].e = "Construct" -> ConstructClauses(s, l)

Positions(s, l, fails) ==
    LET ev == s.ev[l]  T == RootType(s.root)  rn == RootName(s.root) IN
    (IF "U_lossless" \in fails THEN Bad(IF s.sk = "observed" THEN DropNulls(s.ev[l - 1].j, ev.w) ELSE s.ev[l - 1].j, ev.w, T, rn) ELSE {})
    \cup (IF "U_exact" \in fails
          THEN Bad(Wire(IF s.sk = "reunstructure" /\ l = 4 THEN s.ev[1].o ELSE s.ev[l - 1].o), ev.w, T, rn) ELSE {})
    \cup (IF "U_idem" \in fails THEN Bad(s.ev[2].w, ev.w, T, rn) ELSE {})
    \cup (IF "S_typed" \in fails THEN BadWT(ev.p, T, ev.j, rn) ELSE {})

TInit == svS = 1 /\ svL = 1 /\ svN = 0

Step == /\ svS <= NSess
        /\ LET s == Sess[svS]
               fails == Clauses(s, svL)
           IN /\ IF fails = {} THEN TRUE
                 ELSE PrintT("@F " \o ToJson([sid |-> s.sid, l |-> svL, c |-> fails,
                                              pos |-> Positions(s, svL, fails)]))
              /\ IF svL < Len(s.ev) THEN svL' = svL + 1 /\ svS' = svS
                                    ELSE svL' = 1 /\ svS' = svS + 1
        /\ svN' = svN + 1
        /\ TLCSet(1, svN + 1)

TSpec == TInit /\ [][Step]_tvars

\* acceptance: every event of every session was consumed
AllConsumed == /\ TLCGet(1) = NEvents
               /\ PrintT("@DONE " \o ToJson([events |-> TLCGet(1)]))
=============================================================================
